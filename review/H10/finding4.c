/*
 * finding4.c - C10: a wakeup with signal CMB_PROCESS_SUCCESS that does not come
 * from the thing the process is waiting for leaves stale entries behind:
 * cmb_process_hold() keeps its wakeup event, cmb_resourceguard_wait() keeps its
 * waiting list entry. The process ends up TWICE in a resource guard (same hash
 * key), one entry survives the process, and the guard later dereferences the
 * destroyed process.
 *
 *   t=0   H acquires resource R and keeps it until t=20.
 *   t=0   P2 sleeps: cmb_process_hold(10).
 *   t=1   P1 wakes the sleeper: cmb_process_resume(P2, CMB_PROCESS_SUCCESS)
 *         (cmb_process.h puts no restriction on the signal of a resume; only
 *         cmb_process_interrupt documents "cannot be CMB_PROCESS_SUCCESS").
 *         The hold returns 0, but its wakeup event (t=10) stays scheduled.
 *   t=1   P2 calls cmb_resource_acquire(R), waits in R's guard.
 *   t=10  the stale hold wakeup resumes P2 with SUCCESS inside the guard wait.
 *         cmb_resourceguard_wait() returns 0 without removing P2's entry,
 *         cmb_resource_acquire() sees R still taken and waits again:
 *         second heap entry with the same key (the process address).
 *   t=15  P2 is interrupted and gives up. One entry is removed; its tombstone
 *         in the hash map hides the other entry, which stays in the queue.
 *         P2 returns and is finished.
 *   t=16  P2 is terminated and destroyed (it is finished).
 *   t=20  H releases R -> cmb_resourceguard_signal() takes the ghost entry and
 *         reads the freed process (priority, later status and stack pointer).
 *
 * Expected: after P2 has finished nobody waits for R: guard queue length 0.
 * Got:      guard queue length 1 (ghost of P2); heap-use-after-free under ASan.
 */
#include <stdio.h>
#include <unistd.h>
#include <sys/wait.h>
#include "cimba.h"

static struct cmb_resource *R;
static struct cmb_process *H, *P1, *P2;
static uint64_t ghosts = 0u;

static void *holder(struct cmb_process *me, void *c)
{
    (void)me; (void)c;
    (void)cmb_resource_acquire(R);
    (void)cmb_process_hold(20.0);
    cmb_resource_release(R);
    (void)cmb_process_hold(5.0);
    return NULL;
}

static void *sleeper(struct cmb_process *me, void *c)
{
    (void)me; (void)c;
    int64_t s = cmb_process_hold(10.0);
    printf("          t=%g P2 hold(10) returned %ld\n", cmb_time(), (long)s);
    s = cmb_resource_acquire(R);
    printf("          t=%g P2 acquire returned %ld\n", cmb_time(), (long)s);
    return NULL;
}

static void *waker(struct cmb_process *me, void *c)
{
    (void)me; (void)c;
    (void)cmb_process_hold(1.0);
    cmb_process_resume(P2, CMB_PROCESS_SUCCESS);
    (void)cmb_process_hold(14.0);
    cmb_process_interrupt(P2, CMB_PROCESS_INTERRUPTED, 0);
    return NULL;
}

static void reap(void *a, void *b)
{
    (void)a; (void)b;
    if (cmb_process_status(P2) != CMB_PROCESS_FINISHED) {
        _exit(3);
    }
    ghosts = R->guard.priority_queue.heap_count;
    printf("          t=%g P2 finished, R's waiting list holds %lu entries\n",
           cmb_time(), (unsigned long)ghosts);
    fflush(stdout);
    cmb_process_terminate(P2);
    cmb_process_destroy(P2);
    P2 = NULL;
}

static void scenario(void)
{
    cmb_logger_flags_off(CMB_LOGGER_INFO | CMB_LOGGER_WARNING);
    cmb_event_queue_initialize(0.0);
    R = cmb_resource_create();
    cmb_resource_initialize(R, "R");
    H = cmb_process_create();
    cmb_process_initialize(H, "H", holder, NULL, 0);
    cmb_process_start(H);
    P2 = cmb_process_create();
    cmb_process_initialize(P2, "P2", sleeper, NULL, 0);
    cmb_process_start(P2);
    P1 = cmb_process_create();
    cmb_process_initialize(P1, "P1", waker, NULL, 0);
    cmb_process_start(P1);
    (void)cmb_event_schedule(reap, NULL, NULL, 16.0, 0);
    cmb_event_queue_execute();
    fflush(stdout);
}

int main(void)
{
    printf("expected: 0 entries in R's waiting list once P2 has finished, child exit status 0\n");
    fflush(stdout);
    const pid_t pid = fork();
    if (pid == 0) {
        scenario();
        _exit((ghosts == 0u) ? 0 : 2);
    }
    int st = 0;
    (void)waitpid(pid, &st, 0);
    if (WIFEXITED(st) && WEXITSTATUS(st) == 0) {
        printf("got:      child exit status 0 (defect not shown)\n");
        return 0;
    }
    if (WIFSIGNALED(st)) {
        printf("got:      child killed by signal %d (DEFECT)\n", WTERMSIG(st));
    }
    else if (WEXITSTATUS(st) == 2) {
        printf("got:      ghost entry of the destroyed process left in the waiting list and later used (DEFECT)\n");
    }
    else {
        printf("got:      child exit status %d (DEFECT, sanitizer report above)\n", WEXITSTATUS(st));
    }
    return 1;
}
