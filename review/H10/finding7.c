/*
 * finding7.c - C10: cmb_resource_terminate()/cmb_resource_destroy() on a
 * resource that is still held takes the resource away from its holder
 * (there is code for exactly that case) but leaves the holder's
 * cmi_process_holdable tag pointing at the resource. When the holder later
 * ends or is stopped, cmi_process_drop_resources() calls the drop() method
 * through the destroyed resource.
 *
 * The simulation is ended the documented way, by an event that calls
 * cmb_event_queue_clear(). The teardown then destroys the resource before it
 * stops the process.
 *
 * Expected: teardown completes.
 * Got:      heap-use-after-free (ASan) / jump through a function pointer read
 *           from freed memory, segmentation fault (release build).
 */
#include <stdio.h>
#include <stdlib.h>
#include <string.h>
#include <unistd.h>
#include <sys/wait.h>
#include "cimba.h"

static struct cmb_resource *R;
static void * volatile other;

static void *user(struct cmb_process *me, void *c)
{
    (void)me; (void)c;
    (void)cmb_resource_acquire(R);
    (void)cmb_process_hold(100.0);
    cmb_resource_release(R);
    return NULL;
}

static void end_sim(void *s, void *o)
{
    (void)s; (void)o;
    cmb_event_queue_clear();
}

static void scenario(void)
{
    cmb_logger_flags_off(CMB_LOGGER_INFO | CMB_LOGGER_WARNING);
    cmb_event_queue_initialize(0.0);
    R = cmb_resource_create();
    cmb_resource_initialize(R, "R");
    struct cmb_process *p = cmb_process_create();
    cmb_process_initialize(p, "user", user, NULL, 0);
    cmb_process_start(p);
    (void)cmb_event_schedule(end_sim, NULL, NULL, 10.0, 0);
    cmb_event_queue_execute();

    /* Teardown: the resource first ... */
    cmb_resource_destroy(R);
    /* (the allocator reuses the block for something else) */
    other = malloc(sizeof(struct cmb_resource));
    memset(other, 0x41, sizeof(struct cmb_resource));
    /* ... then the process */
    cmb_process_stop(p, NULL);
    cmb_process_terminate(p);
    cmb_process_destroy(p);
    cmb_event_queue_terminate();
    free(other);
}

int main(void)
{
    printf("expected: teardown completes, child exit status 0\n");
    fflush(stdout);
    const pid_t pid = fork();
    if (pid == 0) {
        scenario();
        _exit(0);
    }
    int st = 0;
    (void)waitpid(pid, &st, 0);
    if (WIFEXITED(st) && WEXITSTATUS(st) == 0) {
        printf("got:      child exit status 0 (defect not shown)\n");
        return 0;
    }
    if (WIFSIGNALED(st)) {
        printf("got:      child killed by signal %d (DEFECT)\n", WTERMSIG(st));
    }
    else {
        printf("got:      child exit status %d (DEFECT, sanitizer report above)\n", WEXITSTATUS(st));
    }
    return 1;
}
