/*
 * finding6.c - C10 / documentation: the *_initialize() functions of every class
 * that contains a resource guard (cmb_condition, cmb_resource,
 * cmb_resourcepool, cmb_buffer, cmb_objectqueue, cmb_priorityqueue) abort
 * through a library assertion unless the object memory was zeroed beforehand.
 * The headers only ask for "an allocated object" and advertise create/initialize
 * separation "to enable object-oriented inheritance by composition"; the
 * tutorials malloc() their derived cmb_process objects without zeroing, which
 * works, and cmb_dataset/cmb_timeseries/cmb_*summary_initialize() work on
 * uninitialised memory too.
 *
 * Expected: initialize makes an allocated object ready for use.
 * Got:      Fatal: Assert "hp->heap == NULL" failed in cmi_hashheap_initialize().
 */
#include <stdio.h>
#include <stdlib.h>
#include <string.h>
#include <unistd.h>
#include <sys/wait.h>
#include "cimba.h"
#include "cmb_priorityqueue.h"

/* A derived class, allocated by its own constructor */
struct gate {
    struct cmb_condition cond;      /* parent class first */
    int lane;
};

static void scenario_condition(void)
{
    struct gate *gp = malloc(sizeof(*gp));
    memset(gp, 0xAA, sizeof(*gp));          /* what malloc may legitimately hand out */
    cmb_condition_initialize(&(gp->cond), "gate");
    gp->lane = 1;
    cmb_condition_terminate(&(gp->cond));
    free(gp);
}

static void scenario_buffer(void)
{
    struct cmb_buffer b;                    /* automatic storage, indeterminate */
    memset(&b, 0x55, sizeof(b));
    cmb_buffer_initialize(&b, "tank", 10u);
    cmb_buffer_terminate(&b);
}

static int run(const char *name, void (*fn)(void))
{
    printf("%s expected: initialize succeeds, child exit status 0\n", name);
    fflush(stdout);
    const pid_t pid = fork();
    if (pid == 0) {
        cmb_logger_flags_off(CMB_LOGGER_INFO | CMB_LOGGER_WARNING);
        cmb_event_queue_initialize(0.0);
        fn();
        cmb_event_queue_terminate();
        _exit(0);
    }
    int st = 0;
    (void)waitpid(pid, &st, 0);
    if (WIFEXITED(st) && WEXITSTATUS(st) == 0) {
        printf("%s got:      child exit status 0 (defect not shown)\n", name);
        return 0;
    }
    if (WIFSIGNALED(st)) {
        printf("%s got:      child killed by signal %d (DEFECT, library abort)\n", name, WTERMSIG(st));
    }
    else {
        printf("%s got:      child exit status %d (DEFECT)\n", name, WEXITSTATUS(st));
    }
    return 1;
}

int main(void)
{
    int bad = 0;
    bad += run("derived cmb_condition on the heap", scenario_condition);
    bad += run("cmb_buffer in automatic storage  ", scenario_buffer);
    return (bad != 0) ? 1 : 0;
}
