/*
 * finding5.c - C10 (utility classes): cmb_random_loaded_dice() returns n, one
 * past the last valid index, and cmb_random_hyperexponential() then reads
 * ma[n], outside the caller's array.
 *
 * The probabilities {0.333, 0.333, 0.333} are "one third each" written with
 * three decimals. The library accepts them: its own precondition check
 * sums_to_one() has a tolerance of 1e-3. With probability 1 - sum(pa) the
 * uniform draw lands above the last cumulative value, the search loop runs off
 * the end and returns ui == n (only a cmb_assert_debug guards that, compiled
 * out in the shipped build).
 *
 * Expected: every draw is an index in [0, n-1] (cmb_random.h); hyperexponential
 *           only reads ma[0..n-1].
 * Got:      index 3 returned for n = 3; ma[3] read (stack-buffer-overflow under
 *           ASan; in the release build the sentinel behind the array is used as
 *           the mean and trips 'Assert "mean > 0.0"').
 */
#include <stdio.h>
#include <unistd.h>
#include <sys/wait.h>
#include "cimba.h"

static void scenario(void)
{
    cmb_logger_flags_off(CMB_LOGGER_INFO | CMB_LOGGER_WARNING);
    cmb_random_initialize(12345u);

    const double pa[3] = { 0.333, 0.333, 0.333 };
    unsigned bad = 0u;
    for (int i = 0; i < 100000; i++) {
        const unsigned k = cmb_random_loaded_dice(3u, pa);
        if (k >= 3u) {
            if (bad++ == 0u) {
                printf("          draw %d: cmb_random_loaded_dice(3, pa) returned %u\n", i, k);
            }
        }
    }
    printf("          %u of 100000 draws outside [0, 2]\n", bad);
    fflush(stdout);

    /* The same selection inside the library, indexing the caller's array */
    struct { double ma[3]; double behind; } m = { { 1.0, 2.0, 3.0 }, -1.0 };
    for (int i = 0; i < 100000; i++) {
        (void)cmb_random_hyperexponential(3u, m.ma, pa);
    }

    _exit((bad == 0u) ? 0 : 2);
}

int main(void)
{
    printf("expected: all draws in [0, 2], no access outside ma[0..2], child exit status 0\n");
    fflush(stdout);
    const pid_t pid = fork();
    if (pid == 0) {
        scenario();
        _exit(0);
    }
    int st = 0;
    (void)waitpid(pid, &st, 0);
    if (WIFEXITED(st) && WEXITSTATUS(st) == 0) {
        printf("got:      child exit status 0 (defect not shown)\n");
        return 0;
    }
    if (WIFSIGNALED(st)) {
        printf("got:      child killed by signal %d after reading ma[3] (DEFECT)\n", WTERMSIG(st));
    }
    else {
        printf("got:      child exit status %d (DEFECT)\n", WEXITSTATUS(st));
    }
    return 1;
}
