/*
 * finding3.c - C10: cmb_process_priority_set() terminates the program through
 * a library assertion when the event queue is empty (or no longer holds the
 * wakeup event of the target's hold / timer).
 *
 * Variant A: the simulation is ended the documented way, by an event calling
 *            cmb_event_queue_clear(). A process was in cmb_process_hold() at
 *            that moment. Afterwards its priority is changed.
 * Variant B: a timer set with cmb_process_timer_add() is cancelled through the
 *            event handle it returned (cmb_event_cancel(handle), "handle of
 *            some event in the event queue"), then the priority is changed.
 *
 * Expected: the priority changes; there is no wakeup event to reshuffle.
 * Got:      Fatal: Assert "cmi_hashheap_count(event_queue) > 0u" failed (A),
 *           Fatal: Assert "cmi_hashheap_is_enqueued(event_queue, handle)" failed (B),
 *           both in cmb_event_reprioritize(), abort().
 */
#include <stdio.h>
#include <unistd.h>
#include <sys/wait.h>
#include "cimba.h"

static struct cmb_process *p;

static void *sleeper(struct cmb_process *me, void *ctx)
{
    (void)me; (void)ctx;
    (void)cmb_process_hold(100.0);
    return NULL;
}

static void end_sim(void *s, void *o)
{
    (void)s; (void)o;
    cmb_event_queue_clear();
}

static void variant_a(void)
{
    cmb_logger_flags_off(CMB_LOGGER_INFO | CMB_LOGGER_WARNING);
    cmb_event_queue_initialize(0.0);
    p = cmb_process_create();
    cmb_process_initialize(p, "sleeper", sleeper, NULL, 0);
    cmb_process_start(p);
    (void)cmb_event_schedule(end_sim, NULL, NULL, 10.0, 0);
    cmb_event_queue_execute();

    /* The event queue is empty now, the process still suspended in its hold */
    cmb_process_priority_set(p, 5);

    cmb_process_stop(p, NULL);
    cmb_process_terminate(p);
    cmb_process_destroy(p);
    cmb_event_queue_terminate();
}

static void *timed(struct cmb_process *me, void *ctx)
{
    (void)ctx;
    const uint64_t h = cmb_process_timer_add(me, 50.0, CMB_PROCESS_TIMEOUT);
    (void)cmb_event_schedule(end_sim, NULL, NULL, 60.0, 0);   /* keeps the queue non-empty */
    (void)cmb_event_cancel(h);
    cmb_process_priority_set(me, 5);
    return NULL;
}

static void variant_b(void)
{
    cmb_logger_flags_off(CMB_LOGGER_INFO | CMB_LOGGER_WARNING);
    cmb_event_queue_initialize(0.0);
    p = cmb_process_create();
    cmb_process_initialize(p, "timed", timed, NULL, 0);
    cmb_process_start(p);
    cmb_event_queue_execute();
    cmb_process_terminate(p);
    cmb_process_destroy(p);
    cmb_event_queue_terminate();
}

static int run(const char *name, void (*fn)(void))
{
    printf("%s expected: completes, child exit status 0\n", name);
    fflush(stdout);
    const pid_t pid = fork();
    if (pid == 0) {
        fn();
        _exit(0);
    }
    int st = 0;
    (void)waitpid(pid, &st, 0);
    if (WIFEXITED(st) && WEXITSTATUS(st) == 0) {
        printf("%s got:      child exit status 0 (defect not shown)\n", name);
        return 0;
    }
    if (WIFSIGNALED(st)) {
        printf("%s got:      child killed by signal %d (DEFECT, library abort)\n", name, WTERMSIG(st));
    }
    else {
        printf("%s got:      child exit status %d (DEFECT)\n", name, WEXITSTATUS(st));
    }
    return 1;
}

int main(void)
{
    int bad = 0;
    bad += run("A (queue cleared)  ", variant_a);
    bad += run("B (timer cancelled)", variant_b);
    return (bad != 0) ? 1 : 0;
}
