/*
 * finding1.c - C10: use-after-free of a finished-and-destroyed process through
 * the awaitable tag of a process that was waiting for it.
 *
 * A waits for B with cmb_process_wait_process(B). B is stopped, and - being
 * finished - terminated and destroyed, exactly like tutorial/tut_4_2.c does
 * with its ships in end_sim(). In the same event A is stopped as well.
 * cmb_process_stop(A) -> cmi_process_cancel_awaiteds(A) still finds the tag
 * (CMI_PROCESS_AWAITABLE_PROCESS, B) on A's list and dereferences B.
 *
 * Expected: the program runs to completion (every call respects the header).
 * Got:      heap-use-after-free (ASan) / segmentation fault (release build).
 */
#include <stdio.h>
#include <stdlib.h>
#include <string.h>
#include <unistd.h>
#include <sys/wait.h>
#include "cimba.h"

static struct cmb_process *A, *B;
static void * volatile other;

static void *worker(struct cmb_process *me, void *c)
{
    (void)me; (void)c;
    cmb_process_hold(100.0);
    return NULL;
}

static void *waiter(struct cmb_process *me, void *c)
{
    (void)me; (void)c;
    (void)cmb_process_wait_process(B);
    return NULL;
}

static void end_sim(void *s, void *o)
{
    (void)s; (void)o;
    /* Stop and recycle the worker (it is finished after the stop) */
    cmb_process_stop(B, NULL);
    cmb_process_terminate(B);
    cmb_process_destroy(B);

    /* The application allocates something else; malloc hands out the block again */
    other = malloc(sizeof(struct cmb_process));
    memset(other, 0x41, sizeof(struct cmb_process));

    /* Now stop the process that was waiting for the worker */
    cmb_process_stop(A, NULL);
}

static void scenario(void)
{
    cmb_logger_flags_off(CMB_LOGGER_INFO | CMB_LOGGER_WARNING);
    cmb_event_queue_initialize(0.0);
    B = cmb_process_create();
    cmb_process_initialize(B, "B", worker, NULL, 0);
    cmb_process_start(B);
    A = cmb_process_create();
    cmb_process_initialize(A, "A", waiter, NULL, 0);
    cmb_process_start(A);
    (void)cmb_event_schedule(end_sim, NULL, NULL, 5.0, 0);
    cmb_event_queue_execute();
    cmb_process_terminate(A);
    cmb_process_destroy(A);
    cmb_event_queue_terminate();
    free(other);
}

int main(void)
{
    printf("expected: scenario completes, child exit status 0\n");
    fflush(stdout);
    const pid_t pid = fork();
    if (pid == 0) {
        scenario();
        _exit(0);
    }
    int st = 0;
    (void)waitpid(pid, &st, 0);
    if (WIFEXITED(st) && WEXITSTATUS(st) == 0) {
        printf("got:      child exit status 0 (defect not shown)\n");
        return 0;
    }
    if (WIFSIGNALED(st)) {
        printf("got:      child killed by signal %d (DEFECT)\n", WTERMSIG(st));
    }
    else {
        printf("got:      child exit status %d (DEFECT, sanitizer report above)\n", WEXITSTATUS(st));
    }
    return 1;
}
