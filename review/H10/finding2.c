/*
 * finding2.c - C10: cmb_timeseries_finalize() on an empty time series reads
 * through a NULL data array with index UINT64_MAX.
 *
 * "Closing ceremonies" of a trial: finalize the history of an object at
 * cmb_time(). If nothing was ever recorded in it (recording never started,
 * or the resource was never touched), the time series is empty.
 *
 * Expected: nothing to extend, the call returns 0 (the function's own
 *           precondition assert explicitly lets n == 0 through, and
 *           cmb_timeseries_summarize() treats an empty series as valid).
 * Got:      segmentation fault / UBSan "applying non-zero offset to null pointer".
 */
#include <stdio.h>
#include <unistd.h>
#include <sys/wait.h>
#include "cimba.h"

static void scenario(void)
{
    cmb_logger_flags_off(CMB_LOGGER_INFO | CMB_LOGGER_WARNING);
    cmb_event_queue_initialize(0.0);

    /* A resource whose history was never recorded */
    struct cmb_resource *rp = cmb_resource_create();
    cmb_resource_initialize(rp, "idle");
    struct cmb_timeseries *ts = cmb_resource_history(rp);
    if (cmb_timeseries_count(ts) != 0u) {
        _exit(3);
    }

    const uint64_t r = cmb_timeseries_finalize(ts, cmb_time());
    printf("          cmb_timeseries_finalize returned %lu\n", (unsigned long)r);
    fflush(stdout);

    cmb_resource_destroy(rp);
    cmb_event_queue_terminate();
}

int main(void)
{
    printf("expected: finalize on an empty time series returns, child exit status 0\n");
    fflush(stdout);
    const pid_t pid = fork();
    if (pid == 0) {
        scenario();
        _exit(0);
    }
    int st = 0;
    (void)waitpid(pid, &st, 0);
    if (WIFEXITED(st) && WEXITSTATUS(st) == 0) {
        printf("got:      child exit status 0 (defect not shown)\n");
        return 0;
    }
    if (WIFSIGNALED(st)) {
        printf("got:      child killed by signal %d (DEFECT)\n", WTERMSIG(st));
    }
    else {
        printf("got:      child exit status %d (DEFECT, sanitizer report above)\n", WEXITSTATUS(st));
    }
    return 1;
}
