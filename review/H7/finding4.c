/*
 * finding4.c - cmb_timeseries_finalize() on a history that holds no sample
 * (recording never switched on, e.g. because the warm-up event that starts it
 * was never reached) reads xa[-1] of a NULL array and crashes, although its
 * own precondition check explicitly admits the empty series (n == 0).
 * Expected: nothing to close, the history stays empty, returns 0.
 */
#include <inttypes.h>
#include <signal.h>
#include <stdio.h>
#include <string.h>
#include <unistd.h>

#include "cimba.h"

static void on_signal(int sig)
{
    const char *msg = (sig == SIGSEGV)
        ? "got: SIGSEGV inside cmb_timeseries_finalize\nDEFECT SHOWN\n"
        : "got: abort inside cmb_timeseries_finalize\nDEFECT SHOWN\n";
    (void)!write(STDOUT_FILENO, msg, strlen(msg));
    _exit(1);
}

int main(void)
{
    cmb_logger_flags_off(CMB_LOGGER_INFO | CMB_LOGGER_WARNING);
    signal(SIGSEGV, on_signal);
    signal(SIGABRT, on_signal);

    cmb_event_queue_initialize(0.0);
    struct cmb_buffer *buf = cmb_buffer_create();
    cmb_buffer_initialize(buf, "buf", 20u);

    /* The closing ceremony of the documentation, for an object that never recorded */
    struct cmb_timeseries *ts = cmb_buffer_history(buf);
    printf("samples in the history: %" PRIu64 "\n", cmb_timeseries_count(ts));
    printf("expected: cmb_timeseries_finalize(ts, cmb_time()) returns 0 and leaves the history empty\n");
    fflush(stdout);

    const uint64_t r = cmb_timeseries_finalize(ts, cmb_time());
    printf("got: returned %" PRIu64 ", %" PRIu64 " samples\n", r, cmb_timeseries_count(ts));

    const int bad = (r != 0u) || (cmb_timeseries_count(ts) != 0u);
    printf("%s\n", bad ? "DEFECT SHOWN" : "ok");
    return bad;
}
