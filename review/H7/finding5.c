/*
 * finding5.c - C14 (nondecreasing times, time average): closing the recording
 * after cmb_event_queue_terminate(). That call silently resets the simulation
 * clock to 0.0, so the closing sample written by *_recording_stop() is stamped
 * t = 0, EARLIER than the samples before it; the last state gets a negative
 * duration and summarising / reporting the history aborts (or, in a build
 * with NASSERT, silently gives a wrong average).
 *
 * Buffer: level 0 on [0,10), 5 on [10,20]. Time average over [0,20]: 2.5.
 */
#include <inttypes.h>
#include <math.h>
#include <signal.h>
#include <stdio.h>
#include <string.h>
#include <unistd.h>

#include "cimba.h"

static struct cmb_buffer *buf;

static void on_abort(int sig)
{
    (void)sig;
    const char *msg = "got: abort while summarising the history (negative duration)\nDEFECT SHOWN\n";
    (void)!write(STDOUT_FILENO, msg, strlen(msg));
    _exit(1);
}

static void *proc(struct cmb_process *me, void *ctx)
{
    (void)me; (void)ctx;
    uint64_t a = 5u;
    (void)cmb_process_hold(10.0);
    (void)cmb_buffer_put(buf, &a);
    (void)cmb_process_hold(10.0);
    return NULL;
}

int main(void)
{
    cmb_logger_flags_off(CMB_LOGGER_INFO | CMB_LOGGER_WARNING);
    cmb_event_queue_initialize(0.0);
    buf = cmb_buffer_create();
    cmb_buffer_initialize(buf, "buf", 20u);
    cmb_buffer_recording_start(buf);
    struct cmb_process *p = cmb_process_create();
    cmb_process_initialize(p, "p", proc, NULL, 0);
    cmb_process_start(p);
    cmb_event_queue_execute();
    printf("simulation ended at t = %g\n", cmb_time());

    /* End of trial: free the event queue, then close and report the statistics */
    cmb_event_queue_terminate();
    printf("clock after cmb_event_queue_terminate(): expected 20 (end of trial), got %g\n", cmb_time());
    cmb_buffer_recording_stop(buf);

    const struct cmb_timeseries *ts = cmb_buffer_history(buf);
    printf("history (t, level, duration):\n");
    cmb_timeseries_print(ts, stdout);

    int bad = 0;
    const uint64_t n = cmb_timeseries_count(ts);
    for (uint64_t i = 1; i < n; i++) {
        if (ts->ta[i] < ts->ta[i - 1]) {
            printf("sample %" PRIu64 ": time %g after time %g - times must be nondecreasing\n",
                   i, ts->ta[i], ts->ta[i - 1]);
            bad = 1;
        }
    }

    printf("time average of the level: expected 2.5\n");
    fflush(stdout);
    signal(SIGABRT, on_abort);
    struct cmb_wtdsummary ws;
    cmb_wtdsummary_initialize(&ws);
    (void)cmb_timeseries_summarize(ts, &ws);
    printf("got: %g\n", cmb_wtdsummary_mean(&ws));
    if (fabs(cmb_wtdsummary_mean(&ws) - 2.5) > 1e-12) bad = 1;

    printf("%s\n", bad ? "DEFECT SHOWN" : "ok");
    return bad;
}
