/*
 * finding1.c - C14: cmb_timeseries_sort_t() (alone, or as the documented "undo"
 * of cmb_timeseries_sort_x()) permutes the samples that share a time stamp, so
 * the history of a recorded object no longer equals the true trajectory, and
 * the time average computed after recording continues is wrong.
 *
 * Scenario (one process, one buffer, recording on from t = 0):
 *   t = 1 : put 5, get 2, put 4, get 1, put 1   -> level 5,3,7,6,7 (all at t = 1)
 *   t = 1.5 : cmb_timeseries_sort_x(history); cmb_timeseries_sort_t(history);
 *             (with argument "t": only cmb_timeseries_sort_t)
 *   t = 2 : get 7                               -> level 0
 *   t = 3 : stop recording
 * True trajectory: 0 on [0,1), 7 on [1,2), 0 on [2,3]  -> time average 7/3.
 *
 * Build: see the task description; links against the unchanged library.
 */
#include <inttypes.h>
#include <math.h>
#include <stdio.h>
#include <string.h>

#include "cimba.h"

static struct cmb_buffer *buf;
static bool only_sort_t = false;
static int order_changed = 0;

static void *proc(struct cmb_process *me, void *ctx)
{
    (void)me; (void)ctx;
    uint64_t a;

    cmb_buffer_recording_start(buf);
    (void)cmb_process_hold(1.0);
    a = 5; (void)cmb_buffer_put(buf, &a);
    a = 2; (void)cmb_buffer_get(buf, &a);
    a = 4; (void)cmb_buffer_put(buf, &a);
    a = 1; (void)cmb_buffer_get(buf, &a);
    a = 1; (void)cmb_buffer_put(buf, &a);
    (void)cmb_process_hold(0.5);

    struct cmb_timeseries *ts = cmb_buffer_history(buf);
    const uint64_t n = cmb_timeseries_count(ts);
    const struct cmb_dataset *ds = (struct cmb_dataset *)ts;
    double before[16];
    for (uint64_t i = 0; i < n; i++) before[i] = ds->xa[i];

    if (!only_sort_t) {
        cmb_timeseries_sort_x(ts);
    }
    cmb_timeseries_sort_t(ts);   /* documented: back to an ascending time sequence */

    printf("history at t=1.5 (t, level) before -> after the sort:\n");
    for (uint64_t i = 0; i < n; i++) {
        printf("  (%g, %g) -> (%g, %g)\n", ts->ta[i], before[i], ts->ta[i], ds->xa[i]);
        if (before[i] != ds->xa[i]) order_changed = 1;
    }
    printf("true level now: %" PRIu64 ", last sample in history: %g\n",
           cmb_buffer_level(buf), ds->xa[n - 1]);

    (void)cmb_process_hold(0.5);
    a = 7; (void)cmb_buffer_get(buf, &a);
    (void)cmb_process_hold(1.0);
    cmb_buffer_recording_stop(buf);

    return NULL;
}

int main(int argc, char **argv)
{
    only_sort_t = (argc > 1) && (strcmp(argv[1], "t") == 0);
    cmb_logger_flags_off(CMB_LOGGER_INFO | CMB_LOGGER_WARNING);
    cmb_event_queue_initialize(0.0);

    buf = cmb_buffer_create();
    cmb_buffer_initialize(buf, "buf", 20u);
    struct cmb_process *p = cmb_process_create();
    cmb_process_initialize(p, "p", proc, NULL, 0);
    cmb_process_start(p);
    cmb_event_queue_execute();

    struct cmb_wtdsummary ws;
    cmb_wtdsummary_initialize(&ws);
    (void)cmb_timeseries_summarize(cmb_buffer_history(buf), &ws);
    const double got = cmb_wtdsummary_mean(&ws);
    const double expected = 7.0 / 3.0;

    printf("time average of the level over [0,3]: expected %.6f, got %.6f\n", expected, got);
    printf("order of simultaneous samples preserved: expected yes, got %s\n",
           order_changed ? "NO" : "yes");

    cmb_event_queue_terminate();
    const int bad = order_changed || (fabs(got - expected) > 1e-9);
    printf("%s\n", bad ? "DEFECT SHOWN" : "ok");
    return bad ? 1 : 0;
}
