/*
 * finding2.c - C14 (time averages): the time-weighted variance / standard
 * deviation / skewness / kurtosis of a recorded history are not time averages
 * of the trajectory: they are normalised with the NUMBER OF SAMPLES instead
 * of the summed weights (the recorded duration).
 *
 * A resource is idle on [0,30) and busy on [30,100]. Utilisation 0.7; the
 * time average of (x - 0.7)^2 is 0.7 * 0.3 = 0.21, standard deviation 0.458,
 * whatever the unit of time and however many samples the history holds.
 *
 * The same trajectory is run twice, with the clock in "minutes" (scale 1) and
 * in "seconds" (scale 60), and once with a redundant re-start of the recording
 * (which adds a sample without changing the trajectory).
 */
#include <math.h>
#include <stdio.h>

#include "cimba.h"

static struct cmb_resource *res;
static double scale;
static bool extra_sample;

static void *proc(struct cmb_process *me, void *ctx)
{
    (void)me; (void)ctx;
    cmb_resource_start_recording(res);
    (void)cmb_process_hold(30.0 * scale);
    (void)cmb_resource_acquire(res);
    (void)cmb_process_hold(35.0 * scale);
    if (extra_sample) {
        /* Recording is already on: adds a sample of the unchanged state */
        cmb_resource_start_recording(res);
    }
    (void)cmb_process_hold(35.0 * scale);
    cmb_resource_release(res);
    cmb_resource_stop_recording(res);
    return NULL;
}

static void run(const double sc, const bool extra, double *mean, double *var, double *sd)
{
    scale = sc;
    extra_sample = extra;
    cmb_event_queue_initialize(0.0);
    res = cmb_resource_create();
    cmb_resource_initialize(res, "res");
    struct cmb_process *p = cmb_process_create();
    cmb_process_initialize(p, "p", proc, NULL, 0);
    cmb_process_start(p);
    cmb_event_queue_execute();

    struct cmb_wtdsummary ws;
    cmb_wtdsummary_initialize(&ws);
    (void)cmb_timeseries_summarize(cmb_resource_history(res), &ws);
    *mean = cmb_wtdsummary_mean(&ws);
    *var = cmb_wtdsummary_variance(&ws);
    *sd = cmb_wtdsummary_stddev(&ws);
    printf("clock scale %g%s: report is\n  ", sc, extra ? ", one redundant sample" : "");
    cmb_wtdsummary_print(&ws, stdout, true);

    cmb_process_terminate(p);
    cmb_process_destroy(p);
    cmb_resource_destroy(res);
    cmb_event_queue_terminate();
}

int main(void)
{
    cmb_logger_flags_off(CMB_LOGGER_INFO | CMB_LOGGER_WARNING);

    double m1, v1, s1, m2, v2, s2, m3, v3, s3;
    run(1.0, false, &m1, &v1, &s1);
    run(60.0, false, &m2, &v2, &s2);
    run(1.0, true, &m3, &v3, &s3);

    printf("time-weighted mean     : expected 0.7 in all runs, got %g, %g, %g\n", m1, m2, m3);
    printf("time-weighted variance : expected 0.21 in all runs, got %g, %g, %g\n", v1, v2, v3);
    printf("time-weighted std.dev. : expected 0.458258 in all runs, got %g, %g, %g\n", s1, s2, s3);

    int bad = 0;
    if (fabs(m1 - 0.7) > 1e-12 || fabs(m2 - 0.7) > 1e-12 || fabs(m3 - 0.7) > 1e-12) {
        printf("mean is wrong\n");
        bad = 1;
    }
    if (fabs(v1 - v2) > 1e-9 || fabs(v1 - v3) > 1e-9) {
        printf("variance of one and the same trajectory depends on the unit of time / number of samples\n");
        bad = 1;
    }
    if (fabs(v1 - 0.21) > 1e-9) {
        printf("variance is not the time average of the squared deviation\n");
        bad = 1;
    }

    printf("%s\n", bad ? "DEFECT SHOWN" : "ok");
    return bad;
}
