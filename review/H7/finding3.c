/*
 * finding3.c - C14 (statistics computed from a history): the time-weighted
 * median and five-number summary of a history are wrong whenever a quantile
 * falls inside the duration of the SMALLEST recorded value: the search only
 * looks between the cumulated weights of sample i and i+1 and never below the
 * first one, so the quantile stays at its initial 0.0 - below the minimum.
 *
 * A buffer holds 5 units on [0,70) and 8 units on [70,100]; its level is never
 * below 5. Time-weighted median: 5 (the level is 5 for 70 % of the time).
 */
#include <inttypes.h>
#include <math.h>
#include <stdio.h>
#include <stdlib.h>
#include <string.h>

#include "cimba.h"

static struct cmb_buffer *buf;

static void *proc(struct cmb_process *me, void *ctx)
{
    (void)me; (void)ctx;
    uint64_t a = 5u;
    (void)cmb_buffer_put(buf, &a);
    cmb_buffer_recording_start(buf);
    (void)cmb_process_hold(70.0);
    a = 3u;
    (void)cmb_buffer_put(buf, &a);
    (void)cmb_process_hold(30.0);
    cmb_buffer_recording_stop(buf);
    return NULL;
}

int main(void)
{
    cmb_logger_flags_off(CMB_LOGGER_INFO | CMB_LOGGER_WARNING);
    cmb_event_queue_initialize(0.0);
    buf = cmb_buffer_create();
    cmb_buffer_initialize(buf, "buf", 20u);
    struct cmb_process *p = cmb_process_create();
    cmb_process_initialize(p, "p", proc, NULL, 0);
    cmb_process_start(p);
    cmb_event_queue_execute();

    const struct cmb_timeseries *ts = cmb_buffer_history(buf);
    printf("history (t, level, duration):\n");
    cmb_timeseries_print(ts, stdout);

    const double med = cmb_timeseries_median(ts);
    const double lo = cmb_timeseries_min(ts);
    const double hi = cmb_timeseries_max(ts);
    printf("time-weighted median: expected 5 (level is 5 for 70 of 100 time units), got %g\n", med);
    printf("recorded minimum %g, maximum %g\n", lo, hi);

    /* The five-number summary, parsed back from its tab separated form */
    char line[256] = { 0 };
    FILE *fp = tmpfile();
    cmb_timeseries_fivenum_print(ts, fp, false);
    rewind(fp);
    if (fgets(line, sizeof line, fp) == NULL) line[0] = '\0';
    fclose(fp);
    double f[5] = { 0 };
    (void)sscanf(line, "%lf %lf %lf %lf %lf", &f[0], &f[1], &f[2], &f[3], &f[4]);
    printf("five-number summary: expected 5 5 5 8 8 (min, Q1, median, Q3, max; any\n"
           "  interpolation rule keeps them within [5,8] and ascending), got %g %g %g %g %g\n",
           f[0], f[1], f[2], f[3], f[4]);

    int bad = 0;
    if (med < lo || med > hi) {
        printf("median lies outside [min, max]\n");
        bad = 1;
    }
    if (f[1] < f[0] || f[2] < f[1]) {
        printf("quartiles are below the minimum / not ascending\n");
        bad = 1;
    }

    cmb_event_queue_terminate();
    printf("%s\n", bad ? "DEFECT SHOWN" : "ok");
    return bad;
}
