/*
 * finding1.c - C09: after a process has ended, its waiters keep a raw pointer
 * to it until their wake-up call is delivered, and the library dereferences
 * that pointer if the waiter is stopped / timed out / interrupted first.
 * The ended process may legally have been terminated and its memory recycled
 * by then (cmb_process_terminate only requires that the process is finished).
 *
 * Scenario A (clean-up loop, as in tutorial/tut_4_1.c end_sim()):
 *     an end-of-simulation event stops, terminates and frees process A, then
 *     stops process B. B was waiting for A.
 * Scenario B (time-out in the same instant):
 *     W waits for A with a time-out at t = 10. At t = 10 an event stops,
 *     terminates and frees A. W's timer fires before W's wake-up call.
 *
 * The process objects are allocated by the application (like struct ship in
 * tut_4_1.c), so "recycling" is simply reusing the memory as a byte buffer
 * (deterministic, no dependence on what malloc does with freed blocks).
 *
 * Expected: the waiter is taken care of (resumed once / stopped cleanly)
 *           without the library touching the memory of the ended process.
 * Got:      cmi_process_cancel_awaiteds() (A) and cmb_process_wait_process()
 *           (B) read awaited->waiters from the recycled memory and walk it
 *           as a list -> SIGSEGV (or heap-use-after-free under ASan).
 *
 * Exit status: 0 = no defect seen, 1 = defect shown.
 */
#include <inttypes.h>
#include <stdio.h>
#include <stdlib.h>
#include <string.h>
#include <sys/wait.h>
#include <unistd.h>

#include "cimba.h"

static struct cmb_process *A, *B;
static int64_t bsig = 99;
static double btime = -1.0;
static int scenario;
static unsigned char *recycled;   /* the memory of A, reused as a plain buffer */

static struct cmb_process *my_process_create(void)
{
    struct cmb_process *p = malloc(sizeof(*p));
    memset(p, 0, sizeof(*p));
    return p;
}

static void *afunc(struct cmb_process *me, void *ctx)
{
    (void)me; (void)ctx;
    cmb_process_hold(100.0);
    return NULL;
}

static void *bfunc(struct cmb_process *me, void *ctx)
{
    (void)ctx;
    if (scenario == 1) {
        /* Give up waiting at t = 10 */
        cmb_process_timer_set(me, 10.0, CMB_PROCESS_TIMEOUT);
    }

    bsig = cmb_process_wait_process(A);
    btime = cmb_time();
    return NULL;
}

static void end_sim(void *subject, void *object)
{
    (void)subject; (void)object;

    /* A ends here: its waiter B gets a wake-up call scheduled for this instant */
    cmb_process_stop(A, NULL);

    /* A is finished, so it may be terminated, and the application recycles it */
    cmb_process_terminate(A);
    recycled = (unsigned char *)A;
    memset(recycled, 0xAB, sizeof(*A));

    if (scenario == 0) {
        /* Next one in the clean-up loop */
        cmb_process_stop(B, NULL);
    }
}

static int run(void)
{
    cmb_logger_flags_off(CMB_LOGGER_INFO | CMB_LOGGER_WARNING);
    cmb_random_initialize(1u);
    cmb_event_queue_initialize(0.0);

    A = my_process_create();
    cmb_process_initialize(A, "A", afunc, NULL, 0);
    cmb_process_start(A);
    B = my_process_create();
    cmb_process_initialize(B, "B", bfunc, NULL, 0);
    cmb_process_start(B);

    (void)cmb_event_schedule(end_sim, NULL, NULL, 10.0, 1);
    cmb_event_queue_execute();

    if (scenario == 0) {
        printf("   B status %d (2 = finished), simulation ended at t = %g, buffer byte 0x%02X\n",
               (int)cmb_process_status(B), cmb_time(), recycled[0]);
        return (cmb_process_status(B) == CMB_PROCESS_FINISHED) ? 0 : 1;
    }
    else {
        printf("   B resumed at t = %g with signal %" PRIi64 ", buffer byte 0x%02X\n", btime, bsig, recycled[0]);
        return (btime == 10.0) ? 0 : 1;
    }
}

int main(void)
{
    int defects = 0;
    static const char *names[2] = {
        "A: stop A, terminate + recycle A, stop B (B was waiting for A)",
        "B: stop A, terminate + recycle A, B's own time-out fires before its wake-up call"
    };

    for (scenario = 0; scenario < 2; scenario++) {
        printf("Scenario %s\n", names[scenario]);
        printf("   expected: completes, the library never touches A after it was terminated\n");
        fflush(stdout);
        const pid_t pid = fork();
        if (pid == 0) {
            _exit(run());
        }

        int st = 0;
        (void)waitpid(pid, &st, 0);
        if (WIFSIGNALED(st)) {
            printf("   got:      killed by signal %d while the library walked the recycled memory of A\n",
                   WTERMSIG(st));
            defects++;
        }
        else if (WEXITSTATUS(st) != 0) {
            printf("   got:      wrong outcome (exit %d)\n", WEXITSTATUS(st));
            defects++;
        }
        else {
            printf("   got:      completed normally\n");
        }
    }

    printf("%s\n", defects ? "DEFECT SHOWN" : "no defect seen");
    return defects ? 1 : 0;
}
