/*
 * finding3.c - C03: "when its function returns, the returned value becomes its
 * exit value and control goes back to the coroutine that started it" versus
 * "a simulated process continues exactly where it last gave up control / the
 * value handed over on a resume appears as the return value of the MATCHING
 * yield".
 *
 * cmb_event_execute_next() is a public call with no stated restriction on who
 * calls it. If a process executes an event itself and that event happens to be
 * the start of another process P2, P2's parent is that process (P1), not the
 * dispatcher. When P2 ends - much later, resumed by the real dispatcher - its
 * exit does not answer the dispatcher that is waiting inside
 * cmi_coroutine_resume(P2) but jumps into P1:
 *   variant A: P1 is in the middle of cmb_process_hold(10): the hold returns at
 *              t = 5 with "signal" 7, which is P2's exit value.
 *   variant B: P1 has ended: assert "to->status == CMI_COROUTINE_RUNNING" in
 *              coroutine_switch(), the program aborts.
 *
 * Exits non-zero when the defect shows.
 */
#include <stdio.h>
#include <stdint.h>
#include <stdlib.h>
#include <signal.h>
#include <sys/types.h>
#include <sys/wait.h>
#include <unistd.h>
#include "cimba.h"

static struct cmb_process *p1, *p2;
static int variant;
static int64_t p1_sig = -999;
static double p1_end = -1.0;

static void *f2(struct cmb_process *me, void *ctx)
{
    (void)me; (void)ctx;
    cmb_process_hold(5.0);
    return (void *)7;                     /* P2's exit value */
}

static void *f1(struct cmb_process *me, void *ctx)
{
    (void)me; (void)ctx;
    cmb_process_start(p2);                /* schedules P2's start event at t = 0 */
    (void)cmb_event_execute_next();       /* ... and executes it from here */
    if (variant == 0) {
        p1_sig = cmb_process_hold(10.0);
        p1_end = cmb_time();
    }
    return NULL;
}

static int scenario(void)
{
    cmb_logger_flags_off(CMB_LOGGER_INFO | CMB_LOGGER_WARNING);
    cmb_event_queue_initialize(0.0);
    p1 = cmb_process_create();
    p2 = cmb_process_create();
    cmb_process_initialize(p1, "P1", f1, NULL, 0);
    cmb_process_initialize(p2, "P2", f2, NULL, 0);
    cmb_process_start(p1);
    cmb_event_queue_execute();

    int bad = 0;
    if (variant == 0) {
        printf("  P1's hold(10): expected signal 0 at t=10, got signal %ld at t=%g\n", (long)p1_sig, p1_end);
        bad |= (p1_sig != CMB_PROCESS_SUCCESS) || (p1_end != 10.0);
    }
    const int fin = (cmb_process_status(p2) == CMB_PROCESS_FINISHED);
    printf("  P2: expected finished with exit value 7, got %s, value %p\n",
           fin ? "finished" : "not finished", fin ? cmb_process_exit_value(p2) : NULL);
    bad |= !fin;
    fflush(stdout);
    return bad ? 2 : 0;
}

int main(void)
{
    int shown = 0;
    for (variant = 0; variant < 2; variant++) {
        printf("variant %c: P1 %s\n", 'A' + variant,
               variant == 0 ? "holds 10.0 after starting P2 by hand" : "ends after starting P2 by hand");
        fflush(stdout);
        const pid_t pid = fork();
        if (pid == 0) {
            _exit(scenario());
        }
        int st = 0;
        waitpid(pid, &st, 0);
        if (WIFSIGNALED(st)) {
            printf("  expected a normal end of the run, got: killed by signal %d%s\n", WTERMSIG(st),
                   WTERMSIG(st) == SIGABRT ? " (SIGABRT, failed assert)" : "");
            shown = 1;
        }
        else if (WEXITSTATUS(st) != 0) {
            shown = 1;
        }
    }
    printf("%s\n", shown ? "DEFECT SHOWN" : "ok");
    return shown;
}
