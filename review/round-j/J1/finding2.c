/*
 * finding2.c - C03: "a newly started process ... control goes back to the
 * coroutine that started it" / "the context of the dispatcher (main stack) is
 * preserved in the same way".
 *
 * The bookkeeping object for the dispatcher's (main stack) context is created
 * only as a side effect of cmi_coroutine_initialize(), per thread. A thread that
 * starts a process without having initialized one itself has no dispatcher
 * context: cmi_coroutine_start() records parent = caller = NULL and
 * coroutine_switch() dereferences it.
 *
 * Scenario: the experiment's processes are created and initialized up front in
 * main(), one per trial struct; the trial function (run by
 * cimba_run_experiment() in a worker thread) only initializes the event queue,
 * starts its own process and runs. No object is shared between trials.
 *
 * Exits non-zero when the defect shows (the child crashes with SIGSEGV).
 */
#include <stdio.h>
#include <stdint.h>
#include <stdlib.h>
#include <signal.h>
#include <sys/types.h>
#include <sys/wait.h>
#include <unistd.h>
#include "cimba.h"

struct trial {
    struct cmb_process *proc;
    int ran;
};

static void *procfunc(struct cmb_process *me, void *ctx)
{
    (void)me;
    struct trial *t = ctx;
    cmb_process_hold(1.0);
    t->ran = 1;
    return NULL;
}

static void trialfunc(void *vp)
{
    struct trial *t = vp;
    cmb_logger_flags_off(CMB_LOGGER_INFO | CMB_LOGGER_WARNING);
    cmb_event_queue_initialize(0.0);
    cmb_process_start(t->proc);
    cmb_event_queue_execute();
    cmb_event_queue_terminate();
}

static int scenario(void)
{
    struct trial t[1];
    t[0].ran = 0;
    t[0].proc = cmb_process_create();
    cmb_process_initialize(t[0].proc, "P", procfunc, &t[0], 0);   /* in the main thread */
    cimba_run_experiment(t, 1, sizeof(t[0]), trialfunc);         /* runs in a worker thread */
    printf("child: process ran to its end: %d (expected 1)\n", t[0].ran);
    return t[0].ran == 1 ? 0 : 2;
}

int main(void)
{
    fflush(stdout);
    const pid_t pid = fork();
    if (pid == 0) {
        _exit(scenario());
    }
    int st = 0;
    waitpid(pid, &st, 0);
    printf("expected: the process is started by the worker thread's dispatcher, holds 1.0, ends; child exits 0\n");
    if (WIFSIGNALED(st)) {
        printf("got     : child killed by signal %d (%s)\nDEFECT SHOWN\n", WTERMSIG(st),
               WTERMSIG(st) == SIGSEGV ? "SIGSEGV" : WTERMSIG(st) == SIGABRT ? "SIGABRT" : "other");
        return 1;
    }
    printf("got     : child exit status %d\n%s\n", WEXITSTATUS(st), WEXITSTATUS(st) ? "DEFECT SHOWN" : "ok");
    return WEXITSTATUS(st) != 0;
}
