#include <stdio.h>
#include <math.h>
#include "cimba.h"
static volatile double zero = 0.0, one = 1.0;
static void ev(void *s, void *o){ volatile double y = one / zero; printf("t=%g dispatcher: 1/0 = %g\n", cmb_time(), y); fflush(stdout);}
static void *f(struct cmb_process *me, void *ctx)
{
    cmb_process_hold(1.0);
    volatile double y = one / zero;
    printf("t=%g process: 1/0 = %g\n", cmb_time(), y);
    return NULL;
}
int main(void)
{
    cmb_logger_flags_off(CMB_LOGGER_INFO | CMB_LOGGER_WARNING);
    cmb_event_queue_initialize(0.0);
    struct cmb_process *p = cmb_process_create();
    cmb_process_initialize(p, "P", f, NULL, 0);
    cmb_process_start(p);
    cmb_event_schedule(ev, NULL, NULL, 0.5, 0);
    cmb_event_queue_execute();
    return 0;
}
