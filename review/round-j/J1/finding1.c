/*
 * finding1.c - C03: the x87 floating-point control word is not part of the
 * saved context. A process (or the dispatcher) does not get back the
 * floating-point environment it left: fesetround() in one process changes the
 * rounding mode seen by every other process and by the dispatcher, and comes
 * back half-applied (SSE restored, x87 not) in the process that set it.
 *
 * Only public API + <fenv.h>.  Exits non-zero when the defect shows.
 */
#include <fenv.h>
#include <stdio.h>
#include <stdint.h>
#include "cimba.h"

static int bad = 0;
static volatile long double one_l = 1.0L, three_l = 3.0L;
static volatile double one_d = 1.0, three_d = 3.0;
static long double third_nearest_l;
static double third_nearest_d;

static const char *rname(int r)
{
    return r == FE_TONEAREST ? "FE_TONEAREST" : r == FE_UPWARD ? "FE_UPWARD"
         : r == FE_DOWNWARD ? "FE_DOWNWARD" : r == FE_TOWARDZERO ? "FE_TOWARDZERO" : "?";
}

static void check(const char *who, int expected_round)
{
    const int got = fegetround();
    printf("t=%g %-28s fegetround(): expected %s, got %s%s\n", cmb_time(), who,
           rname(expected_round), rname(got), (got == expected_round) ? "" : "   <-- WRONG");
    if (got != expected_round) bad++;
}

/* A user event: runs on the main stack, i.e., in the dispatcher's context */
static void dispatcher_probe(void *s, void *o)
{
    (void)s; (void)o;
    check("dispatcher (user event)", FE_TONEAREST);
    const long double q = one_l / three_l;
    printf("t=%g %-28s 1.0L/3.0L %s the value the dispatcher computed before the run%s\n",
           cmb_time(), "dispatcher (user event)", (q == third_nearest_l) ? "==" : "!=",
           (q == third_nearest_l) ? "" : "   <-- WRONG");
    if (q != third_nearest_l) bad++;
}

static void *proc_a(struct cmb_process *me, void *ctx)
{
    (void)me; (void)ctx;
    fesetround(FE_UPWARD);                 /* t = 0: A chooses its rounding mode */
    check("A (just set FE_UPWARD)", FE_UPWARD);
    cmb_process_hold(2.0);                 /* B and the dispatcher run in between */
    check("A (back from hold)", FE_UPWARD);
    const double qd = one_d / three_d;     /* SSE: still upward, MXCSR is restored */
    const long double ql = one_l / three_l;/* x87: whatever B left behind */
    printf("t=%g A: double 1/3 is %s round-to-nearest value (SSE part of A's mode %s)\n",
           cmb_time(), (qd > third_nearest_d) ? "above the" : "not above the",
           (qd > third_nearest_d) ? "kept" : "lost");
    printf("t=%g A: long double 1/3 is %s the round-to-nearest value (expected not below: A rounds upward)%s\n",
           cmb_time(), (ql >= third_nearest_l) ? "not below" : "below",
           (ql >= third_nearest_l) ? "" : "   <-- WRONG");
    if (!(ql >= third_nearest_l)) bad++;
    return NULL;
}

static void *proc_b(struct cmb_process *me, void *ctx)
{
    (void)me; (void)ctx;
    cmb_process_hold(1.0);
    fesetround(FE_DOWNWARD);               /* t = 1: B chooses another one */
    cmb_process_hold(2.0);
    check("B (back from hold)", FE_DOWNWARD);
    return NULL;
}

int main(void)
{
    cmb_logger_flags_off(CMB_LOGGER_INFO | CMB_LOGGER_WARNING);
    cmb_event_queue_initialize(0.0);

    third_nearest_l = one_l / three_l;
    third_nearest_d = one_d / three_d;

    struct cmb_process *a = cmb_process_create();
    struct cmb_process *b = cmb_process_create();
    cmb_process_initialize(a, "A", proc_a, NULL, 0);
    cmb_process_initialize(b, "B", proc_b, NULL, 0);
    cmb_process_start(a);
    cmb_process_start(b);
    (void)cmb_event_schedule(dispatcher_probe, NULL, NULL, 0.5, 0);
    (void)cmb_event_schedule(dispatcher_probe, NULL, NULL, 1.5, 0);

    cmb_event_queue_execute();
    check("dispatcher (after the run)", FE_TONEAREST);

    printf("%s: %d wrong observation(s)\n", bad ? "DEFECT SHOWN" : "ok", bad);
    return bad != 0;
}
