/*
 * finding4.c - C03, "for every interleaving of start / ... / exit / stop /
 * restart": a restart that is scheduled while the process is still running is
 * silently thrown away when the process ends.
 *
 * cmb_process_start() is non-blocking: it schedules a start event at the
 * current time. A process that schedules its own restart and then returns
 * (the "run again" idiom), or a supervisor that schedules the restart of a
 * worker which ends later in the same instant, never sees the restart:
 * cmb_process_exit() -> cmi_process_cancel_awaiteds() sweeps every library
 * wakeup for the process, and start_event is on that list.
 *
 * Exits non-zero when the defect shows.
 */
#include <stdio.h>
#include <stdint.h>
#include "cimba.h"

static int runs = 0;

static void *procfunc(struct cmb_process *me, void *ctx)
{
    (void)ctx;
    runs++;
    printf("t=%g run %d begins\n", cmb_time(), runs);
    cmb_process_hold(1.0);
    if (runs < 3) {
        cmb_process_start(me);            /* run me again, from the beginning */
        printf("t=%g run %d: restart scheduled, %lu event(s) in the queue\n",
               cmb_time(), runs, (unsigned long)cmb_event_queue_count());
    }
    return NULL;                          /* ends; the start event is still pending */
}

int main(void)
{
    cmb_logger_flags_off(CMB_LOGGER_INFO | CMB_LOGGER_WARNING);
    cmb_event_queue_initialize(0.0);
    struct cmb_process *p = cmb_process_create();
    cmb_process_initialize(p, "P", procfunc, NULL, 0);
    cmb_process_start(p);
    cmb_event_queue_execute();
    printf("expected 3 runs (ending at t=3), got %d run(s), ended at t=%g\n", runs, cmb_time());
    printf("%s\n", runs != 3 ? "DEFECT SHOWN" : "ok");
    return runs != 3;
}
