/*
 * finding1.c - C08 (no lost wake-ups): a getter stays blocked on an object
 * queue that has content, because the grant goes to a process that was stopped
 * long ago but was never taken off the queue's waiting list.
 *
 * How the stale entry gets there:
 *   t=1  P waits on a condition with a timer whose signal is 0
 *        (CMB_PROCESS_SUCCESS; cmb_process_timer_add() takes any signal).
 *        S makes the condition true and calls cmb_condition_signal(): P is taken
 *        off the condition and its wakeup_event_condition is scheduled. The
 *        timer (scheduled earlier, same time and priority) runs first, P sees a
 *        success code while no longer enqueued and returns from
 *        cmb_condition_wait() with CMB_PROCESS_SUCCESS. The condition's wake-up
 *        call is left in the event list (only non-success returns cancel it).
 *   t=1  P goes on to cmb_objectqueue_get() on an empty queue and blocks at the
 *        front guard. Now the left-over wakeup_event_condition runs: it removes
 *        "the" resource awaitable of P (by type, any guard) - which by now is
 *        the record of P waiting at the QUEUE's front guard - and resumes P with
 *        success; P is still enqueued and goes on waiting, but the process no
 *        longer knows that it waits there.
 *   t=2  S stops P. cmi_process_cancel_awaiteds() finds no resource awaitable,
 *        so P is not removed from the front guard of the queue.
 *   t=3  G calls cmb_objectqueue_get() and blocks (behind the dead P).
 *   t=4  S puts one object. The put signals the front guard, which grants the
 *        dead P: its wake-up call is dropped (process not running). G is never
 *        resumed.
 *
 * Expected: G gets the object at t=4, queue empty at the end.
 * Got:      G still blocked in get when the event list is empty, queue length 1.
 */
#include <inttypes.h>
#include <stdio.h>
#include <stdlib.h>
#include "cimba.h"

static struct cmb_condition *cond;
static struct cmb_objectqueue *q;
static struct cmb_process *P, *G, *S;
static bool flag = false;
static int64_t p_cond_sig = 12345;
static bool g_in_get = false, g_got = false;
static void *g_obj = NULL;
static double g_time = -1.0;

static bool flag_is_set(const struct cmb_condition *c, const struct cmb_process *pp, const void *ctx)
{
    (void)c; (void)pp; (void)ctx;
    return flag;
}

static void *pfunc(struct cmb_process *me, void *ctx)
{
    (void)ctx;
    (void)cmb_process_timer_add(me, 1.0, CMB_PROCESS_SUCCESS);
    while (!flag) {
        p_cond_sig = cmb_condition_wait(cond, flag_is_set, NULL);
    }
    void *obj = NULL;
    (void)cmb_objectqueue_get(q, &obj);   /* blocks; P is stopped at t=2 */
    printf("UNEXPECTED: P came back from get\n");
    return NULL;
}

static void *gfunc(struct cmb_process *me, void *ctx)
{
    (void)me; (void)ctx;
    (void)cmb_process_hold(3.0);
    g_in_get = true;
    const int64_t sig = cmb_objectqueue_get(q, &g_obj);
    g_in_get = false;
    if (sig == CMB_PROCESS_SUCCESS) {
        g_got = true;
        g_time = cmb_time();
    }
    return NULL;
}

static void *sfunc(struct cmb_process *me, void *ctx)
{
    (void)me; (void)ctx;
    (void)cmb_process_hold(1.0);
    flag = true;
    (void)cmb_condition_signal(cond);
    (void)cmb_process_hold(1.0);
    cmb_process_stop(P, NULL);                       /* t = 2 */
    (void)cmb_process_hold(2.0);
    (void)cmb_objectqueue_put(q, (void *)0x1234);    /* t = 4 */
    return NULL;
}

int main(void)
{
    cmb_logger_flags_off(CMB_LOGGER_INFO | CMB_LOGGER_WARNING);
    cmb_event_queue_initialize(0.0);

    cond = cmb_condition_create();
    cmb_condition_initialize(cond, "cond");
    q = cmb_objectqueue_create();
    cmb_objectqueue_initialize(q, "queue", 10u);

    P = cmb_process_create();
    cmb_process_initialize(P, "P", pfunc, NULL, 0);
    G = cmb_process_create();
    cmb_process_initialize(G, "G", gfunc, NULL, 0);
    S = cmb_process_create();
    cmb_process_initialize(S, "S", sfunc, NULL, 5);
    cmb_process_start(P);
    cmb_process_start(G);
    cmb_process_start(S);

    cmb_event_queue_execute();

    const uint64_t len = cmb_objectqueue_length(q);
    printf("P: cmb_condition_wait returned %" PRIi64 " (0 = success), P is %s\n",
           p_cond_sig,
           (cmb_process_status(P) == CMB_PROCESS_FINISHED) ? "finished (stopped)" : "not finished");
    printf("expected: G got the object 0x1234 at t=4, queue length 0, nobody blocked\n");
    printf("got     : G %s (object %p, t=%g), G %s in get, queue length %" PRIu64 "\n",
           g_got ? "got an object" : "got nothing", g_obj, g_time,
           (g_in_get && cmb_process_status(G) == CMB_PROCESS_RUNNING) ? "STILL BLOCKED" : "not blocked",
           len);

    const bool defect = (len > 0u) && g_in_get && (cmb_process_status(G) == CMB_PROCESS_RUNNING);
    printf(defect ? "DEFECT: lost wake-up, a getter is blocked on a queue with content\n"
                  : "no defect seen\n");
    return defect ? 1 : 0;
}
