/*
 * suspicion_guard.c - NOT a confirmed violation for the library's own object
 * types (their demand functions are the same for every waiter). Shows what the
 * bare cmb_resourceguard does with per-waiter demands (the use described in
 * cmb_resourceguard.h): when the first waiter leaves (timeout) or is moved back
 * (cmb_process_priority_set), the new first waiter's demand is not evaluated,
 * so it stays blocked although its demand can be met, until somebody signals.
 */
#include <inttypes.h>
#include <stdio.h>
#include "cimba.h"

struct store { struct cmi_resourcebase core; struct cmb_resourceguard guard; uint64_t units; };
static struct store st;
static int b_done = 0;

static bool wants(const struct cmi_resourcebase *rbp, const struct cmb_process *pp, const void *ctx)
{
    (void)pp;
    return ((const struct store *)rbp)->units >= (uint64_t)(uintptr_t)ctx;
}

static void *afunc(struct cmb_process *me, void *ctx)
{
    (void)ctx;
    cmb_process_timer_add(me, 2.0, CMB_PROCESS_TIMEOUT);
    int64_t sig = cmb_resourceguard_wait(&st.guard, wants, (void *)(uintptr_t)5);   /* needs 5, only 3 there */
    printf("t=%g A left the wait with signal %" PRIi64 "\n", cmb_time(), sig);
    return NULL;
}

static void *bfunc(struct cmb_process *me, void *ctx)
{
    (void)me; (void)ctx;
    cmb_process_hold(1.0);
    int64_t sig = cmb_resourceguard_wait(&st.guard, wants, (void *)(uintptr_t)1);   /* needs 1, 3 there, but behind A */
    printf("t=%g B resumed with signal %" PRIi64 "\n", cmb_time(), sig);
    b_done = 1;
    return NULL;
}

int main(void)
{
    cmb_logger_flags_off(CMB_LOGGER_INFO | CMB_LOGGER_WARNING);
    cmb_event_queue_initialize(0.0);
    cmi_resourcebase_initialize(&st.core, "store");
    cmb_resourceguard_initialize(&st.guard, &st.core);
    st.units = 3;
    struct cmb_process *A = cmb_process_create(), *B = cmb_process_create();
    cmb_process_initialize(A, "A", afunc, NULL, 0);
    cmb_process_initialize(B, "B", bfunc, NULL, 0);
    cmb_process_start(A);
    cmb_process_start(B);
    cmb_event_queue_execute();
    printf("end: units %" PRIu64 ", B %s\n", st.units, b_done ? "was resumed" : "is still blocked although it is first in line and its demand (1 <= 3) holds");
    return b_done ? 0 : 1;
}
