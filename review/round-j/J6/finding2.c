/*
 * finding2.c - a zero-signal timer that fires between cmb_condition_signal()
 * taking a waiter off the condition and the delivery of its wake-up makes
 * cmb_condition_wait() return early, leaving wakeup_event_condition in the
 * event queue. When that stale wake-up runs, it strips the process of the
 * record of whatever it is waiting for by then (here: resource R). When the
 * process is stopped afterwards, it is NOT removed from R's waiting list; the
 * dead entry later swallows the grant, and the process behind it starves.
 *
 *   H  holds R from t = 0 to t = 10.
 *   P  arms a timer on itself (dur 5, signal 0), waits on condition C, then
 *      acquires R.
 *   X  (higher priority) sets the flag and signals C at t = 5.
 *   Q  asks for R at t = 6 (queues behind P).
 *   K  stops P at t = 7.
 *
 * Expected: after the stop P is on no waiting list; Q gets R at t = 10.
 * Got:      P is still enqueued at R's guard after the stop; at t = 10 the
 *           grant goes to the dead P, Q never gets R although R is free.
 */
#include <stdio.h>
#include <inttypes.h>
#include "cimba.h"

static struct cmb_process *P, *X, *H, *Q, *K;
static struct cmb_resource *R;
static struct cmb_condition *C;
static int flag = 0;
static double q_got = -1.0;
static int still_enqueued = -1;

static bool dem(const struct cmb_condition *c, const struct cmb_process *p, const void *ctx)
{
    (void)c; (void)p; (void)ctx;
    return flag != 0;
}

static void *hfun(struct cmb_process *me, void *ctx)
{
    (void)me; (void)ctx;
    (void)cmb_resource_acquire(R);
    (void)cmb_process_hold(10.0);
    cmb_resource_release(R);
    return NULL;
}

static void *pfun(struct cmb_process *me, void *ctx)
{
    (void)ctx;
    (void)cmb_process_timer_add(me, 5.0, CMB_PROCESS_SUCCESS);
    const int64_t s = cmb_condition_wait(C, dem, NULL);
    printf("t=%g P: condition_wait returned %" PRIi64 "\n", cmb_time(), s);
    (void)cmb_resource_acquire(R);
    printf("t=%g P: acquire returned (not expected, P is stopped at t=7)\n", cmb_time());
    return NULL;
}

static void *xfun(struct cmb_process *me, void *ctx)
{
    (void)me; (void)ctx;
    (void)cmb_process_hold(5.0);
    flag = 1;
    (void)cmb_condition_signal(C);
    return NULL;
}

static void *qfun(struct cmb_process *me, void *ctx)
{
    (void)me; (void)ctx;
    (void)cmb_process_hold(6.0);
    const int64_t s = cmb_resource_acquire(R);
    printf("t=%g Q: acquire returned %" PRIi64 "\n", cmb_time(), s);
    q_got = cmb_time();
    cmb_resource_release(R);
    return NULL;
}

static void *kfun(struct cmb_process *me, void *ctx)
{
    (void)me; (void)ctx;
    (void)cmb_process_hold(7.0);
    cmb_process_stop(P, NULL);
    still_enqueued = (int)cmi_hashheap_is_enqueued((struct cmi_hashheap *)&(R->guard),
                                                   (uint64_t)P);
    return NULL;
}

int main(void)
{
    cmb_logger_flags_off(CMB_LOGGER_INFO | CMB_LOGGER_WARNING);
    cmb_event_queue_initialize(0.0);
    R = cmb_resource_create();
    cmb_resource_initialize(R, "R");
    C = cmb_condition_create();
    cmb_condition_initialize(C, "C");
    P = cmb_process_create(); X = cmb_process_create(); H = cmb_process_create();
    Q = cmb_process_create(); K = cmb_process_create();
    cmb_process_initialize(H, "H", hfun, NULL, 0);
    cmb_process_initialize(P, "P", pfun, NULL, 0);
    cmb_process_initialize(X, "X", xfun, NULL, 5);
    cmb_process_initialize(Q, "Q", qfun, NULL, 0);
    cmb_process_initialize(K, "K", kfun, NULL, 0);
    cmb_process_start(H); cmb_process_start(P); cmb_process_start(X);
    cmb_process_start(Q); cmb_process_start(K);
    cmb_event_queue_execute();

    printf("expected: stopped P on R's waiting list: 0; Q gets R at t=10\n");
    printf("got:      stopped P on R's waiting list: %d; Q got R at t=%g (-1 = never); "
           "R holder at end: %s\n",
           still_enqueued, q_got, (R->holder == NULL) ? "nobody" : cmb_process_name(R->holder));

    const int bad = (still_enqueued != 0) || (q_got != 10.0);
    printf(bad ? "DEFECT\n" : "ok\n");
    return bad;
}
