/*
 * finding1.c - a zero-signal timer that fires between the end of an awaited
 * process and the delivery of the waiter's wake-up makes
 * cmb_process_wait_process() return early with the timer's 0, and leaves the
 * real wake-up (here CMB_PROCESS_STOPPED) in the event queue. It then resumes
 * the waiter out of its NEXT blocking call.
 *
 * Scenario (all at t = 5):
 *   P  holds for 100.
 *   W  arms a timer on itself (dur 5, signal 0 == CMB_PROCESS_SUCCESS), then
 *      waits for P, then holds for 10.
 *   K  (higher priority, so its hold ends first at t = 5) stops P at t = 5.
 *
 * Expected: wait_process(P) returns CMB_PROCESS_STOPPED (-3) at t = 5, and the
 *           following hold(10) returns CMB_PROCESS_SUCCESS at t = 15.
 * Got:      wait_process(P) returns 0 (as if P had ended normally), and
 *           hold(10) returns -3 at t = 5.
 */
#include <stdio.h>
#include <inttypes.h>
#include "cimba.h"

static struct cmb_process *P, *W, *K;
static int64_t wait_sig = 99, hold_sig = 99;
static double wait_t = -1.0, hold_t = -1.0;

static void *pfun(struct cmb_process *me, void *ctx)
{
    (void)me; (void)ctx;
    (void)cmb_process_hold(100.0);
    return NULL;
}

static void *kfun(struct cmb_process *me, void *ctx)
{
    (void)me; (void)ctx;
    (void)cmb_process_hold(5.0);
    cmb_process_stop(P, (void *)7);
    return NULL;
}

static void *wfun(struct cmb_process *me, void *ctx)
{
    (void)ctx;
    (void)cmb_process_timer_add(me, 5.0, CMB_PROCESS_SUCCESS);
    wait_sig = cmb_process_wait_process(P);
    wait_t = cmb_time();
    hold_sig = cmb_process_hold(10.0);
    hold_t = cmb_time();
    return NULL;
}

int main(void)
{
    cmb_logger_flags_off(CMB_LOGGER_INFO | CMB_LOGGER_WARNING);
    cmb_event_queue_initialize(0.0);
    P = cmb_process_create();
    W = cmb_process_create();
    K = cmb_process_create();
    cmb_process_initialize(P, "P", pfun, NULL, 0);
    cmb_process_initialize(K, "K", kfun, NULL, 5);
    cmb_process_initialize(W, "W", wfun, NULL, 0);
    cmb_process_start(P);
    cmb_process_start(W);
    cmb_process_start(K);
    cmb_event_queue_execute();

    printf("expected: wait_process(P) -> %" PRIi64 " at t=5, then hold(10) -> 0 at t=15\n",
           (int64_t)CMB_PROCESS_STOPPED);
    printf("got:      wait_process(P) -> %" PRIi64 " at t=%g, then hold(10) -> %" PRIi64 " at t=%g\n",
           wait_sig, wait_t, hold_sig, hold_t);

    const int bad = (wait_sig != CMB_PROCESS_STOPPED) || (wait_t != 5.0)
                 || (hold_sig != CMB_PROCESS_SUCCESS) || (hold_t != 15.0);
    printf(bad ? "DEFECT\n" : "ok\n");
    return bad;
}
