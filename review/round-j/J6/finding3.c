/*
 * finding3.c - a process that is stopped by another process while it is
 * suspended in cmb_process_yield() keeps its "yielding" mark. A later
 * cmb_process_resume() for it is then not dropped (as the header promises, and
 * as happens for a process that ended in any other way): resume_event() tries
 * to switch into the dead coroutine. With the default build this trips
 * cmb_assert_release() in cmi_coroutine_resume() and aborts the whole
 * simulation; with asserts compiled out (-DNASSERT) the stopped process would
 * execute again.
 *
 *   P  yields at t = 0.
 *   X  stops P at t = 1, calls cmb_process_resume(P, 42) at t = 2, and holds
 *      until t = 3.
 *
 * Expected: the resume is dropped, P never runs again, X finishes at t = 3.
 * Got:      the run is aborted at t = 2 (SIGABRT from the library).
 * The scenario runs in a child process so that the abort can be reported.
 */
#include <stdio.h>
#include <stdlib.h>
#include <inttypes.h>
#include <signal.h>
#include <unistd.h>
#include <sys/types.h>
#include <sys/wait.h>
#include "cimba.h"

static struct cmb_process *P, *X;
static int p_after_stop = 0, stopped = 0, x_done = 0;

static void *pfun(struct cmb_process *me, void *ctx)
{
    (void)me; (void)ctx;
    const int64_t s = cmb_process_yield();
    if (stopped) {
        p_after_stop = 1;
        printf("t=%g P executes again after being stopped, yield returned %" PRIi64 "\n",
               cmb_time(), s);
    }
    return NULL;
}

static void *xfun(struct cmb_process *me, void *ctx)
{
    (void)me; (void)ctx;
    (void)cmb_process_hold(1.0);
    cmb_process_stop(P, (void *)7);
    stopped = 1;
    (void)cmb_process_hold(1.0);
    cmb_process_resume(P, 42);
    (void)cmb_process_hold(1.0);
    x_done = 1;
    return NULL;
}

static int scenario(void)
{
    cmb_logger_flags_off(CMB_LOGGER_INFO | CMB_LOGGER_WARNING);
    cmb_event_queue_initialize(0.0);
    P = cmb_process_create();
    X = cmb_process_create();
    cmb_process_initialize(P, "P", pfun, NULL, 0);
    cmb_process_initialize(X, "X", xfun, NULL, 0);
    cmb_process_start(P);
    cmb_process_start(X);
    cmb_event_queue_execute();
    if (p_after_stop) return 2;
    return (x_done && cmb_time() == 3.0) ? 0 : 3;
}

int main(void)
{
    fflush(stdout);
    const pid_t pid = fork();
    if (pid == 0) {
        const int r = scenario();
        fflush(stdout);
        _exit(r);
    }

    int status = 0;
    (void)waitpid(pid, &status, 0);
    printf("expected: resume of the stopped process is dropped, run ends normally at t=3\n");
    int bad = 1;
    if (WIFSIGNALED(status)) {
        printf("got:      simulation killed by signal %d (%s) when the resume event ran\n",
               WTERMSIG(status), (WTERMSIG(status) == SIGABRT) ? "SIGABRT, library assert" : "?");
    }
    else if (WIFEXITED(status) && WEXITSTATUS(status) == 2) {
        printf("got:      the stopped process executed again\n");
    }
    else if (WIFEXITED(status) && WEXITSTATUS(status) == 0) {
        printf("got:      run ended normally at t=3\n");
        bad = 0;
    }
    else {
        printf("got:      unexpected child status 0x%x\n", status);
    }

    printf(bad ? "DEFECT\n" : "ok\n");
    return bad;
}
