/*
 * finding2.c - C05 ("... waiters that time out or are interrupted or stopped ...
 * ending or stopping the holder frees the resource for the next waiter"):
 * a waiter that is stopped can stay in the resource's waiting list as a ghost.
 * When the holder then ends, the grant goes to the ghost and is lost: the
 * resource is free, the next (live) waiter is never woken.
 *
 * How the ghost comes about: the wake-up event of a condition
 * (wakeup_event_condition in src/cmb_condition.c) removes "the" RESOURCE entry
 * from the woken process' list of things it waits for, whichever guard that
 * entry belongs to. If that wake-up arrives late (here: a timer carrying the
 * success code ended the condition wait first, in the same instant), it strips
 * the record of the process' NEXT wait, the one at the resource's guard.
 * cmb_process_stop() relies on that record to take the process out of the
 * guard's queue (cmi_process_cancel_awaiteds in src/cmb_process.c).
 *
 * Timeline
 *   t=0    H acquires R.                V sets a timer (1.0, signal 0 = success code)
 *                                       and waits on condition CV.
 *   t=1    H signals CV: V is taken off CV's list, its condition wake-up is
 *          scheduled. V's timer (scheduled earlier, same priority) fires first:
 *          cmb_condition_wait returns 0. V calls cmb_resource_acquire(R): queued.
 *          The condition wake-up arrives: V goes on waiting (correct), but its
 *          record "waits at R's guard" is gone.
 *   t=1.5  W calls cmb_resource_acquire(R): queued behind V.
 *   t=2    V is stopped. Expected: R's waiting list = {W}.
 *   t=3    H ends while holding R. Expected: W gets R at t=3.
 *
 * Build:
 *   gcc -std=c17 -D_POSIX_C_SOURCE=200809L -O1 -g -Iinclude -Isrc -I_b/codegen \
 *       finding2.c -o finding2 _b/src/libcimba.so -lm -lpthread -Wl,-rpath,$PWD/_b/src
 */
#include <inttypes.h>
#include <stdio.h>
#include <stdint.h>

#include "cimba.h"

static struct cmb_resource *R;
static struct cmb_condition *CV;
static struct cmb_process *H, *V, *W;
static bool flag = false;
static double w_got_it_at = -1.0;
static uint64_t queue_after_stop = 0u;

static bool dem(const struct cmb_condition *c, const struct cmb_process *p, const void *ctx)
{
    (void)c; (void)p; (void)ctx;
    return flag;
}

static void *hfunc(struct cmb_process *me, void *ctx)
{
    (void)me; (void)ctx;
    (void)cmb_resource_acquire(R);
    (void)cmb_process_hold(1.0);
    flag = true;
    (void)cmb_condition_signal(CV);
    (void)cmb_process_hold(2.0);
    printf("[%3.1f] H ends while holding R\n", cmb_time());
    return NULL;
}

static void *vfunc(struct cmb_process *me, void *ctx)
{
    (void)ctx;
    (void)cmb_process_timer_add(me, 1.0, CMB_PROCESS_SUCCESS);
    int64_t sig = cmb_condition_wait(CV, dem, NULL);
    printf("[%3.1f] V: condition wait -> %" PRId64 "\n", cmb_time(), sig);
    sig = cmb_resource_acquire(R);
    printf("[%3.1f] V: acquire -> %" PRId64 " (not expected to get here)\n", cmb_time(), sig);
    return NULL;
}

static void *wfunc(struct cmb_process *me, void *ctx)
{
    (void)me; (void)ctx;
    (void)cmb_process_hold(1.5);
    printf("[%3.1f] W: waits for R\n", cmb_time());
    const int64_t sig = cmb_resource_acquire(R);
    printf("[%3.1f] W: acquire -> %" PRId64 "\n", cmb_time(), sig);
    if (sig == CMB_PROCESS_SUCCESS) {
        w_got_it_at = cmb_time();
        cmb_resource_release(R);
    }
    return NULL;
}

static void stop_v(void *s, void *o)
{
    (void)s; (void)o;
    cmb_process_stop(V, NULL);
    queue_after_stop = R->guard.priority_queue.heap_count;
    printf("[%3.1f] V stopped; R's waiting list has %" PRIu64 " entries (expected 1: W)\n",
           cmb_time(), queue_after_stop);
}

static void end_evt(void *s, void *o)
{
    (void)s; (void)o;
    printf("[%3.1f] end: R holder = %s, in_use = %" PRIu64 ", waiting list = %" PRIu64 "\n",
           cmb_time(), (R->holder != NULL) ? cmb_process_name(R->holder) : "(none)",
           cmb_resource_in_use(R), R->guard.priority_queue.heap_count);
    if (cmb_process_status(W) == CMB_PROCESS_RUNNING) cmb_process_stop(W, NULL);
    cmb_event_queue_clear();
}

int main(void)
{
    cmb_logger_flags_off(CMB_LOGGER_INFO | CMB_LOGGER_WARNING);
    cmb_random_initialize(1u);
    cmb_event_queue_initialize(0.0);

    R = cmb_resource_create();
    cmb_resource_initialize(R, "R");
    CV = cmb_condition_create();
    cmb_condition_initialize(CV, "CV");

    H = cmb_process_create();
    cmb_process_initialize(H, "H", hfunc, NULL, 0);
    V = cmb_process_create();
    cmb_process_initialize(V, "V", vfunc, NULL, 0);
    W = cmb_process_create();
    cmb_process_initialize(W, "W", wfunc, NULL, 0);
    cmb_process_start(H);
    cmb_process_start(V);
    cmb_process_start(W);

    cmb_event_schedule(stop_v, NULL, NULL, 2.0, 0);
    cmb_event_schedule(end_evt, NULL, NULL, 10.0, 0);
    cmb_event_queue_execute();

    int bad = 0;
    printf("expected: V leaves R's waiting list when stopped; W acquires R at t=3.0 when H ends\n");
    if (queue_after_stop != 1u) {
        printf("got:      stopped V is still queued at R's guard (%" PRIu64 " entries)\n", queue_after_stop);
        bad = 1;
    }
    if (w_got_it_at != 3.0) {
        if (w_got_it_at < 0.0) printf("got:      W never got R although R was free from t=3.0 on\n");
        else printf("got:      W got R at t=%g\n", w_got_it_at);
        bad = 1;
    }
    printf("%s\n", bad ? "DEFECT SHOWN" : "no defect shown");
    return bad;
}
