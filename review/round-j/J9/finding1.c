/*
 * finding1.c - C05: cmb_resource_terminate() on a held resource clears the
 * resource's holder but leaves the holder process's own record ("I hold R")
 * in place. The two disagree from then on. When the resource object is put
 * back into service (cmb_resource_initialize) and the old holder later ends,
 * its stale record makes the library free the resource under the feet of the
 * process that holds it by then: two processes hold the resource at once.
 *
 * Timeline
 *   t=0  A acquires R, then sleeps (hold 100).
 *   t=1  controller: cmb_resource_terminate(R); cmb_resource_initialize(R)
 *        (R is free again according to all queries, nobody told A)
 *   t=2  B acquires R (success, B is the holder), sleeps.
 *   t=3  controller: cmb_process_stop(A)  -> drops A's stale record of R
 *   t=4  C acquires R: must wait, B still holds it. Instead: success.
 *
 * Build:
 *   gcc -std=c17 -D_POSIX_C_SOURCE=200809L -O1 -g -Iinclude -Isrc -I_b/codegen \
 *       finding1.c -o finding1 _b/src/libcimba.so -lm -lpthread -Wl,-rpath,$PWD/_b/src
 */
#include <inttypes.h>
#include <stdio.h>
#include <stdint.h>

#include "cimba.h"

static struct cmb_resource *R;
static struct cmb_process *A, *B, *C;
static int b_holds = 0;         /* B's own view: between its acquire and its release */
static int violation = 0;

static void *holder_func(struct cmb_process *me, void *ctx)
{
    int *flag = ctx;
    const int64_t sig = cmb_resource_acquire(R);
    printf("[%4.1f] %s: acquire -> %" PRId64 "\n", cmb_time(), cmb_process_name(me), sig);
    if (sig == CMB_PROCESS_SUCCESS) {
        if (flag != NULL) *flag = 1;
        const int64_t hs = cmb_process_hold(100.0);
        printf("[%4.1f] %s: hold -> %" PRId64 " (never told it lost the resource if this is 0)\n",
               cmb_time(), cmb_process_name(me), hs);
        if (flag != NULL) *flag = 0;
        cmb_resource_release(R);
    }
    return NULL;
}

static void *late_func(struct cmb_process *me, void *ctx)
{
    (void)ctx;
    cmb_process_hold(4.0);
    /* Give up after a while, so that the correct outcome (waiting) also ends */
    cmb_process_timer_add(me, 5.0, CMB_PROCESS_TIMEOUT);
    const int64_t sig = cmb_resource_acquire(R);
    printf("[%4.1f] C: acquire -> %" PRId64 ", B %s the resource, holder query says %s\n",
           cmb_time(), sig, b_holds ? "still holds" : "does not hold",
           (R->holder == NULL) ? "(none)" : cmb_process_name(R->holder));
    if ((sig == CMB_PROCESS_SUCCESS) && b_holds) {
        printf("       expected: C waits (B acquired at t=2 and has neither released, been preempted nor ended)\n");
        printf("       got:      C's acquire succeeded -> B and C both hold R\n");
        violation = 1;
    }
    if (sig == CMB_PROCESS_SUCCESS) cmb_resource_release(R);
    return NULL;
}

static void recycle_evt(void *s, void *o)
{
    (void)s; (void)o;
    printf("[%4.1f] ctl: terminate + initialize R while A holds it\n", cmb_time());
    cmb_resource_terminate(R);
    cmb_resource_initialize(R, "R");
    printf("       queries: in_use=%" PRIu64 " held_by(A)=%" PRIu64 ", but A's own list of held resources is %s\n",
           cmb_resource_in_use(R), cmb_resource_held_by_process(R, A),
           (A->resources.next == NULL) ? "empty" : "NOT empty (stale record of R)");
    if (A->resources.next != NULL) violation = 1;
}

static void stop_a_evt(void *s, void *o)
{
    (void)s; (void)o;
    printf("[%4.1f] ctl: stop A. Before: holder=%s\n", cmb_time(),
           (R->holder == NULL) ? "(none)" : cmb_process_name(R->holder));
    cmb_process_stop(A, NULL);
    printf("       after stopping A: holder=%s (B has not released)\n",
           (R->holder == NULL) ? "(none)" : cmb_process_name(R->holder));
}

static void start_evt(void *s, void *o)
{
    (void)o;
    cmb_process_start((struct cmb_process *)s);
}

static void end_evt(void *s, void *o)
{
    (void)s; (void)o;
    if (cmb_process_status(A) == CMB_PROCESS_RUNNING) cmb_process_stop(A, NULL);
    if (cmb_process_status(B) == CMB_PROCESS_RUNNING) cmb_process_stop(B, NULL);
    if (cmb_process_status(C) == CMB_PROCESS_RUNNING) cmb_process_stop(C, NULL);
    cmb_event_queue_clear();
}

int main(void)
{
    cmb_logger_flags_off(CMB_LOGGER_INFO | CMB_LOGGER_WARNING);
    cmb_random_initialize(1u);
    cmb_event_queue_initialize(0.0);

    R = cmb_resource_create();
    cmb_resource_initialize(R, "R");

    A = cmb_process_create();
    cmb_process_initialize(A, "A", holder_func, NULL, 0);
    B = cmb_process_create();
    cmb_process_initialize(B, "B", holder_func, &b_holds, 0);
    C = cmb_process_create();
    cmb_process_initialize(C, "C", late_func, NULL, 0);

    cmb_process_start(A);
    cmb_event_schedule(recycle_evt, NULL, NULL, 1.0, 0);
    cmb_event_schedule(start_evt, B, NULL, 2.0, 0);
    cmb_event_schedule(stop_a_evt, NULL, NULL, 3.0, 0);
    cmb_process_start(C);
    cmb_event_schedule(end_evt, NULL, NULL, 20.0, 0);

    cmb_event_queue_execute();

    printf("%s\n", violation ? "DEFECT SHOWN" : "no defect shown");
    return violation ? 1 : 0;
}
