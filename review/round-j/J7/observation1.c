/*
 * observation1.c - NOT a violation of C01/C02 (every event still runs once, in order), but a
 * performance cliff in the hashheap: once every slot of the hash map has held a key at least
 * once (tombstones are never cleared except when the table grows), every lookup of a key that
 * is not in the map walks the WHOLE map. cmi_hashheap_enqueue() does such a lookup for every
 * generated key, so every cmb_event_schedule() becomes O(capacity).
 *
 * Scenario: a burst of 20000 pending events (capacity grows to 32768, hash map 65536 slots),
 * drained; then an ordinary steady state of one pending event at a time.
 */
#include <stdio.h>
#include <stdint.h>
#include <time.h>
#include "cimba.h"

static long nran;
static void act(void *s, void *o) { (void)s; (void)o; nran++; }
static double now(void) { struct timespec t; clock_gettime(CLOCK_MONOTONIC, &t); return (double)t.tv_sec + 1e-9 * (double)t.tv_nsec; }

static double cycles(long n)
{
    const double t0 = now();
    for (long k = 0; k < n; k++) {
        (void)cmb_event_schedule(act, NULL, NULL, cmb_time() + 1.0, 0);
        (void)cmb_event_execute_next();
    }
    return (now() - t0) / (double)n;
}

int main(void)
{
    cmb_logger_flags_off(CMB_LOGGER_INFO | CMB_LOGGER_WARNING);
    cmb_event_queue_initialize(0.0);
    for (long k = 0; k < 20000; k++) {
        (void)cmb_event_schedule(act, NULL, NULL, 1.0, 0);
    }
    cmb_event_queue_execute();

    const double before = cycles(20000);      /* hash map not yet saturated */
    (void)cycles(100000);                     /* every slot gets used once */
    const double after = cycles(20000);       /* same work as 'before' */
    cmb_event_queue_terminate();

    printf("expected: a schedule+execute cycle costs about the same before and after\n");
    printf("got     : %.3f us per cycle before, %.3f us per cycle after (x%.0f)\n",
           1e6 * before, 1e6 * after, after / before);
    return (after > 20.0 * before) ? 1 : 0;
}
