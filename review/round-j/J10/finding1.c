/*
 * finding1.c - C11, amounts "zero": cmb_buffer_put() with *amntp == 0 aborts the
 * whole program (release assert), although include/cmb_buffer.h states no such
 * precondition and cmb_buffer_get() accepts a zero amount.
 *
 * Expected: both a get of 0 and a put of 0 return CMB_PROCESS_SUCCESS at once,
 *           transfer nothing and leave the level unchanged.
 * Got:      get(0) does; put(0) dies in cmi_assert_failed() -> abort().
 *
 * The simulation runs in a child process so that the abort can be observed.
 * Exit status: 0 = no defect, 1 = defect shown.
 */
#include <stdio.h>
#include <stdlib.h>
#include <inttypes.h>
#include <unistd.h>
#include <sys/wait.h>
#include "cimba.h"

static struct cmb_buffer *B;
static int result = 3;

static void *pf(struct cmb_process *me, void *ctx)
{
    (void)me; (void)ctx;
    uint64_t a = 3;
    (void)cmb_buffer_put(B, &a);                 /* level 3 */

    uint64_t g = 0;
    int64_t sg = cmb_buffer_get(B, &g);
    printf("child: get(0) returned %" PRIi64 ", got %" PRIu64 ", level %" PRIu64 "\n",
           sg, g, cmb_buffer_level(B));
    fflush(stdout);

    uint64_t p = 0;
    int64_t sp = cmb_buffer_put(B, &p);          /* aborts here */
    printf("child: put(0) returned %" PRIi64 ", remaining %" PRIu64 ", level %" PRIu64 "\n",
           sp, p, cmb_buffer_level(B));
    fflush(stdout);
    result = (sg == 0 && g == 0 && sp == 0 && p == 0 && cmb_buffer_level(B) == 3) ? 0 : 2;
    return NULL;
}

static int child(void)
{
    cmb_logger_flags_off(CMB_LOGGER_INFO | CMB_LOGGER_WARNING);
    cmb_random_initialize(1);
    cmb_event_queue_initialize(0.0);
    B = cmb_buffer_create();
    cmb_buffer_initialize(B, "B", 10);
    struct cmb_process *P = cmb_process_create();
    cmb_process_initialize(P, "P", pf, NULL, 0);
    cmb_process_start(P);
    cmb_event_queue_execute();
    return result;
}

int main(void)
{
    printf("expected: get(0) and put(0) both return 0 (success), nothing moved, level stays 3\n");
    fflush(stdout);
    pid_t pid = fork();
    if (pid == 0) {
        _exit(child());
    }
    int st = 0;
    waitpid(pid, &st, 0);
    if (WIFSIGNALED(st)) {
        printf("got: the program was killed by signal %d (abort) inside cmb_buffer_put(.., 0)\n", WTERMSIG(st));
        return 1;
    }
    if (WIFEXITED(st) && WEXITSTATUS(st) == 0) {
        printf("got: as expected, no defect\n");
        return 0;
    }
    printf("got: child exit status %d\n", WEXITSTATUS(st));
    return 1;
}
