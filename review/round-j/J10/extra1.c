/* OUTSIDE C11/C20: a condition wake-up that arrives late strips the record of
 * the process's NEXT wait (here: in cmb_buffer_get); a later stop then leaves
 * the dead process in the buffer's waiting line and a grant is lost. */
#include <stdio.h>
#include <inttypes.h>
#include "cimba.h"
static struct cmb_condition *C; static struct cmb_buffer *B; static int flag;
static struct cmb_process *P, *Q, *G;
static uint64_t gotP = 5, gotG = 2; static int64_t sigG = 99;
static bool dem(const struct cmb_condition *c, const struct cmb_process *p, const void *x){(void)c;(void)p;(void)x;return flag;}
static void *pf(struct cmb_process *me, void *ctx){(void)ctx;
    cmb_process_timer_add(me, 1.0, CMB_PROCESS_SUCCESS);
    cmb_condition_wait(C, dem, NULL);
    cmb_buffer_get(B, &gotP);
    return NULL;}
static void *gf(struct cmb_process *me, void *ctx){(void)me;(void)ctx;
    cmb_process_hold(1.5);
    sigG = cmb_buffer_get(B, &gotG);
    return NULL;}
static void *qf(struct cmb_process *me, void *ctx){(void)me;(void)ctx;
    cmb_process_hold(1.0);
    flag = 1; cmb_condition_signal(C);
    cmb_process_hold(1.0);           /* t=2: P waits in the buffer, G behind it */
    cmb_process_stop(P, NULL);
    printf("after stop of P: %" PRIu64 " waiting at the get side (expected 1: G only)\n", cmi_hashheap_count((struct cmi_hashheap *)&B->front_guard));
    uint64_t a = 2; cmb_buffer_put(B, &a);
    cmb_process_hold(1.0);
    printf("t=3: level %" PRIu64 ", G returned %" PRIi64 " with %" PRIu64 " (expected level 0, G got 2)\n", cmb_buffer_level(B), sigG, gotG);
    cmb_process_stop(G, NULL);
    return NULL;}
int main(void){
    cmb_logger_flags_off(CMB_LOGGER_INFO | CMB_LOGGER_WARNING);
    cmb_random_initialize(1); cmb_event_queue_initialize(0.0);
    C = cmb_condition_create(); cmb_condition_initialize(C, "C");
    B = cmb_buffer_create(); cmb_buffer_initialize(B, "B", 10);
    P = cmb_process_create(); cmb_process_initialize(P, "P", pf, NULL, 1);
    G = cmb_process_create(); cmb_process_initialize(G, "G", gf, NULL, 0);
    Q = cmb_process_create(); cmb_process_initialize(Q, "Q", qf, NULL, 5);
    cmb_process_start(P); cmb_process_start(G); cmb_process_start(Q);
    cmb_event_queue_execute();
    return (sigG == 0 && gotG == 2) ? 0 : 1;
}
