/*
 * other3_nothreads.c - REPRODUCED, PATHOLOGICAL ENVIRONMENT: the return value
 * of pthread_create() is ignored (cimba.c:127). If no worker thread can be
 * created (here: an address space limit that leaves no room for a thread
 * stack), cimba_run_experiment() neither runs the trials itself nor reports an
 * error: pthread_join() on the unset handles returns at once and the
 * do { } while (next < total) loop spins forever at 100 % CPU.
 *
 * Expected: returns with all trials called once (or fails loudly).
 * Got:      never returns (the alarm fires after 5 seconds).
 */
#include <stdio.h>
#include <stdlib.h>
#include <signal.h>
#include <unistd.h>
#include <inttypes.h>
#include <sys/resource.h>

#include "cimba.h"

struct trial { uint64_t calls; };
static struct trial arr[40];

static void trial_func(void *vp)
{
    struct trial *t = vp;
    __atomic_fetch_add(&t->calls, 1u, __ATOMIC_SEQ_CST);
}

static void on_alarm(int sig)
{
    (void)sig;
    static const char msg[] = "got:      cimba_run_experiment() still spinning after 5 s, no trial called\n";
    (void)!write(1, msg, sizeof msg - 1);
    _exit(1);
}

static size_t vmsize(void)
{
    unsigned long pages = 0ul;
    FILE *f = fopen("/proc/self/statm", "r");
    if (f != NULL) {
        if (fscanf(f, "%lu", &pages) != 1) pages = 0ul;
        fclose(f);
    }
    return (size_t)pages * (size_t)sysconf(_SC_PAGESIZE);
}

int main(void)
{
    printf("expected: cimba_run_experiment() returns, 40 trials called once (or a loud failure)\n");
    fflush(stdout);

    /* Room for 2 MB more, a default thread stack is 8 MB */
    struct rlimit rl;
    rl.rlim_cur = rl.rlim_max = vmsize() + 2u * 1024u * 1024u;
    if (setrlimit(RLIMIT_AS, &rl) != 0) {
        perror("setrlimit");
        return 2;
    }

    signal(SIGALRM, on_alarm);
    alarm(5);
    cimba_run_experiment(arr, 40u, sizeof arr[0], trial_func);
    alarm(0);

    unsigned bad = 0u;
    for (unsigned i = 0u; i < 40u; i++) {
        if (arr[i].calls != 1u) bad++;
    }
    printf("got:      returned, %u trials not called exactly once\n", bad);
    return bad ? 1 : 0;
}
