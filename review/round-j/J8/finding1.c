/*
 * finding1.c - C19: a process that was created and initialized by the main
 * thread (while it fills in the experiment array) cannot be started by the
 * trial it belongs to: the worker thread dereferences a NULL current-coroutine
 * pointer in cmi_coroutine_start() and the whole experiment dies with SIGSEGV.
 * The same trials run one after another in a single thread work fine.
 *
 * Every trial has its own element and its own process object: nothing is
 * shared between trials, no header says that cmb_process_initialize() must be
 * called by the thread that later starts the process.
 *
 * Expected: sequential child and experiment child both report 4 trials done.
 * Got:      the experiment child is killed by SIGSEGV (even with 1 trial).
 */
#include <stdio.h>
#include <stdlib.h>
#include <string.h>
#include <inttypes.h>
#include <signal.h>
#include <unistd.h>
#include <sys/wait.h>

#include "cimba.h"

#define NTRIALS 4

struct trial {
    struct cmb_process *proc;   /* parameter: set up by main() */
    uint64_t seed;              /* parameter */
    uint64_t calls;             /* result */
    double finished_at;         /* result */
};

static void *procfunc(struct cmb_process *me, void *vp)
{
    cmb_unused(me);
    struct trial *t = vp;
    (void)cmb_process_hold(cmb_random_exponential(1.0));
    t->finished_at = cmb_time();
    return NULL;
}

static void trial_func(void *vp)
{
    struct trial *t = vp;
    t->calls++;
    cmb_logger_flags_off(CMB_LOGGER_INFO | CMB_LOGGER_WARNING);
    cmb_random_initialize(t->seed);
    cmb_event_queue_initialize(0.0);
    cmb_process_start(t->proc);
    cmb_event_queue_execute();
    cmb_event_queue_terminate();
}

static int run(const int use_experiment, const unsigned n)
{
    struct trial arr[NTRIALS];
    memset(arr, 0, sizeof arr);
    for (unsigned i = 0; i < n; i++) {
        arr[i].seed = 7u + i;
        arr[i].proc = cmb_process_create();
        cmb_process_initialize(arr[i].proc, "Proc", procfunc, &arr[i], 0);
    }

    if (use_experiment) {
        cimba_run_experiment(arr, n, sizeof arr[0], trial_func);
    }
    else {
        for (unsigned i = 0; i < n; i++) {
            trial_func(&arr[i]);
        }
    }

    unsigned done = 0;
    for (unsigned i = 0; i < n; i++) {
        if ((arr[i].calls == 1u) && (arr[i].finished_at > 0.0)) done++;
        cmb_process_terminate(arr[i].proc);
        cmb_process_destroy(arr[i].proc);
    }
    printf("    %s: %u of %u trials done, finished_at[0] = %.17g\n",
           use_experiment ? "experiment" : "sequential", done, n, arr[0].finished_at);
    fflush(stdout);
    return (done == n) ? 0 : 1;
}

static int in_child(const int use_experiment, const unsigned n)
{
    fflush(stdout);
    const pid_t pid = fork();
    if (pid == 0) {
        _exit(run(use_experiment, n));
    }
    int st = 0;
    waitpid(pid, &st, 0);
    if (WIFSIGNALED(st)) {
        printf("    %s: child KILLED by signal %d%s\n",
               use_experiment ? "experiment" : "sequential", WTERMSIG(st),
               WTERMSIG(st) == SIGSEGV ? " (SIGSEGV)" : "");
        return 2;
    }
    return WEXITSTATUS(st);
}

int main(void)
{
    int defect = 0;
    const unsigned counts[] = { 1u, NTRIALS };
    for (unsigned k = 0; k < 2; k++) {
        printf("%u trial(s), process objects initialized by main()\n", counts[k]);
        const int rs = in_child(0, counts[k]);
        const int re = in_child(1, counts[k]);
        printf("  expected exit status sequential / experiment: 0 / 0, got %d / %d\n", rs, re);
        if ((rs != 0) || (re != 0)) defect = 1;
    }

    printf(defect ? "DEFECT: the experiment does not run the trials that a single thread runs\n" : "ok\n");
    return defect;
}
