/*
 * other2_nested.c - REPRODUCED, VALIDITY OF THE PROGRAM DEBATABLE (header
 * silent): cimba_run_experiment() keeps its bookkeeping in file-scope globals
 * (cimba.c:37-41). A trial that itself calls cimba_run_experiment() for a small
 * inner experiment (cimba.h advertises it as a general "pthreads wrapper")
 * overwrites the array pointer, element size, function, count and next-index
 * of the outer experiment. The outer call then returns with most of its trials
 * never called, without any error.
 *
 * Expected: 200 outer trials called exactly once. Got: most called 0 times.
 */
#include <stdio.h>
#include <stdlib.h>
#include <time.h>
#include <inttypes.h>

#include "cimba.h"

struct inner { uint64_t calls; };
struct outer { uint64_t calls; int nest; };

static void inner_func(void *vp)
{
    struct inner *t = vp;
    __atomic_fetch_add(&t->calls, 1u, __ATOMIC_SEQ_CST);
}

static void outer_func(void *vp)
{
    struct outer *t = vp;
    __atomic_fetch_add(&t->calls, 1u, __ATOMIC_SEQ_CST);
    if (t->nest) {
        struct inner in[4] = { { 0u } };
        cimba_run_experiment(in, 4u, sizeof in[0], inner_func);
    }
    else {
        const struct timespec ts = { 0, 20000000L };
        nanosleep(&ts, NULL);
    }
}

int main(void)
{
    enum { N = 200 };
    static struct outer arr[N];
    arr[0].nest = 1;

    cimba_run_experiment(arr, N, sizeof arr[0], outer_func);

    unsigned never = 0u, twice = 0u;
    for (unsigned i = 0u; i < N; i++) {
        if (arr[i].calls == 0u) never++;
        if (arr[i].calls > 1u) twice++;
    }

    printf("expected: %d outer trials called exactly once\n", N);
    printf("got:      %u never called, %u called more than once\n", never, twice);
    return (never + twice) ? 1 : 0;
}
