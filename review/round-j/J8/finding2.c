/*
 * finding2.c - C19: an object queue that crosses the boundary of the
 * experiment (in either direction) works when the trials are run one after
 * another in a single thread, but aborts the program under
 * cimba_run_experiment(): its list tags come from a hidden thread-local memory
 * pool that (a) refuses objects on a thread that has not allocated from it yet
 * and (b) is freed when the worker thread exits, while the queue lives on.
 *
 *   variant A: main() puts the work items of each trial into that trial's own
 *              queue, the trial's process gets them.
 *   variant B: the trial's process puts result objects into a queue in its own
 *              trial struct, main() looks at them after the experiment and
 *              destroys the queue.
 *
 * Nothing is shared between trials. Expected: sequential and experiment
 * children both exit 0 with identical output. Got: the experiment child is
 * aborted by Assert "mp->cookie == CMI_INITIALIZED" (cmi_mempool.h), in A
 * inside the first trial, in B after the results were read from memory that
 * the dead worker thread had already freed.
 */
#include <stdio.h>
#include <stdlib.h>
#include <string.h>
#include <inttypes.h>
#include <signal.h>
#include <unistd.h>
#include <sys/wait.h>

#include "cimba.h"

#define NTRIALS 3
#define NITEMS 3

struct trial {
    struct cmb_objectqueue *q;
    int variant;
    uint64_t seed;
    int items[NITEMS];
    uint64_t calls;
    uint64_t sum;
};

static void *procfunc(struct cmb_process *me, void *vp)
{
    cmb_unused(me);
    struct trial *t = vp;
    if (t->variant == 0) {
        /* A: consume what main() put there */
        while (cmb_objectqueue_length(t->q) > 0u) {
            void *obj = NULL;
            (void)cmb_objectqueue_get(t->q, &obj);
            t->sum += (uint64_t)(*(int *)obj);
            (void)cmb_process_hold(1.0);
        }
    }
    else {
        /* B: produce results for main() */
        for (int k = 0; k < NITEMS; k++) {
            (void)cmb_process_hold(1.0);
            t->items[k] = 10 * (k + 1);
            (void)cmb_objectqueue_put(t->q, &t->items[k]);
        }
    }

    return NULL;
}

static void trial_func(void *vp)
{
    struct trial *t = vp;
    t->calls++;
    cmb_logger_flags_off(CMB_LOGGER_INFO | CMB_LOGGER_WARNING);
    cmb_random_initialize(t->seed);
    cmb_event_queue_initialize(0.0);
    if (t->variant == 1) {
        t->q = cmb_objectqueue_create();
        cmb_objectqueue_initialize(t->q, "Results", 100u);
    }

    struct cmb_process *p = cmb_process_create();
    cmb_process_initialize(p, "Proc", procfunc, t, 0);
    cmb_process_start(p);
    cmb_event_queue_execute();
    cmb_event_queue_terminate();
    cmb_process_terminate(p);
    cmb_process_destroy(p);
}

static int run(const int variant, const int use_experiment)
{
    cmb_logger_flags_off(CMB_LOGGER_INFO | CMB_LOGGER_WARNING);
    struct trial arr[NTRIALS];
    memset(arr, 0, sizeof arr);
    for (int i = 0; i < NTRIALS; i++) {
        arr[i].variant = variant;
        arr[i].seed = 11u + (uint64_t)i;
        if (variant == 0) {
            arr[i].q = cmb_objectqueue_create();
            cmb_objectqueue_initialize(arr[i].q, "Work", 100u);
            for (int k = 0; k < NITEMS; k++) {
                arr[i].items[k] = 10 * (k + 1);
                /* There is space: returns at once, no process context needed */
                (void)cmb_objectqueue_put(arr[i].q, &arr[i].items[k]);
            }
        }
    }

    if (use_experiment) {
        cimba_run_experiment(arr, NTRIALS, sizeof arr[0], trial_func);
    }
    else {
        for (int i = 0; i < NTRIALS; i++) {
            trial_func(&arr[i]);
        }
    }

    int bad = 0;
    for (int i = 0; i < NTRIALS; i++) {
        if (variant == 1) {
            for (int k = 0; k < NITEMS; k++) {
                const uint64_t pos = cmb_objectqueue_position(arr[i].q, &arr[i].items[k]);
                if (pos == (uint64_t)k + 1u) arr[i].sum += (uint64_t)arr[i].items[k];
            }
        }
        if ((arr[i].calls != 1u) || (arr[i].sum != 60u)) bad++;
    }
    printf("    %s: all trials returned, %d of %d with wrong result (sum[0] = %" PRIu64 ", expected 60)\n",
           use_experiment ? "experiment" : "sequential", bad, NTRIALS, arr[0].sum);
    fflush(stdout);

    for (int i = 0; i < NTRIALS; i++) {
        cmb_objectqueue_destroy(arr[i].q);
    }
    printf("    %s: queues destroyed\n", use_experiment ? "experiment" : "sequential");
    fflush(stdout);

    return bad ? 1 : 0;
}

static int in_child(const int variant, const int use_experiment)
{
    fflush(stdout);
    const pid_t pid = fork();
    if (pid == 0) {
        _exit(run(variant, use_experiment));
    }
    int st = 0;
    waitpid(pid, &st, 0);
    if (WIFSIGNALED(st)) {
        printf("    %s: child KILLED by signal %d%s\n",
               use_experiment ? "experiment" : "sequential", WTERMSIG(st),
               WTERMSIG(st) == SIGABRT ? " (SIGABRT)" : "");
        return 2;
    }
    return WEXITSTATUS(st);
}

int main(void)
{
    int defect = 0;
    for (int variant = 0; variant < 2; variant++) {
        printf("variant %c: %s\n", 'A' + variant,
               variant == 0 ? "queue filled by main(), emptied by the trial"
                            : "queue filled by the trial, read and destroyed by main()");
        const int rs = in_child(variant, 0);
        const int re = in_child(variant, 1);
        printf("  expected exit status sequential / experiment: 0 / 0, got %d / %d\n", rs, re);
        if ((rs != 0) || (re != 0)) defect = 1;
    }

    printf(defect ? "DEFECT: the experiment aborts where the single thread run succeeds\n" : "ok\n");
    return defect;
}
