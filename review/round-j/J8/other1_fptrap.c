/*
 * other1_fptrap.c - BY DESIGN BUT UNDOCUMENTED in include/*.h (C19 as literally
 * stated): cimba_run_experiment() unmasks the SSE invalid-operation and
 * divide-by-zero exceptions (MXCSR = 0x1d00) in the calling thread and hence in
 * all workers. A trial whose own C code produces an IEEE infinity or NaN
 * (variant B: 1.0 / 0.0 as a "no data" mark) completes when the trials are run
 * one after another in a plain thread, but kills the whole experiment, all
 * other trials included, with SIGFPE. The calling thread keeps the unmasked
 * exceptions after cimba_run_experiment() has returned.
 *
 * (Variant A, cmb_random_std_beta(0.25, 2.0), is only run for illustration:
 * cmb_random_std_gamma() is wrong for shape < 1 and takes sqrt() of a negative
 * number for shape < 1/3. Sequentially that is a NaN caught by a debug assert
 * in cmb_random.h, in an experiment it is a SIGFPE. Outside C15/C19 proper.)
 *
 * Exit status is non-zero when variant B behaves differently in the two runs.
 */
#include <stdio.h>
#include <stdlib.h>
#include <string.h>
#include <inttypes.h>
#include <signal.h>
#include <unistd.h>
#include <sys/wait.h>

#include "cimba.h"

#define NTRIALS 8

struct trial {
    uint64_t seed;
    int variant;
    volatile double zero;   /* 0.0, a parameter so the compiler cannot fold the division */
    uint64_t calls;
    double result;
};

static void trial_func(void *vp)
{
    struct trial *t = vp;
    t->calls++;
    cmb_logger_flags_off(CMB_LOGGER_INFO | CMB_LOGGER_WARNING);
    cmb_random_initialize(t->seed);
    if (t->variant == 0) {
        t->result = cmb_random_std_beta(0.25, 2.0);
    }
    else {
        const double served = t->zero;          /* nothing was served in this trial */
        t->result = 1.0 / served;               /* +inf, well defined in IEEE 754 / Annex F */
    }
}

/* returns 0 if all trials ran once, prints a digest of the results */
static int run(const int variant, const int use_experiment)
{
    struct trial arr[NTRIALS];
    memset(arr, 0, sizeof arr);
    for (int i = 0; i < NTRIALS; i++) {
        arr[i].seed = 100u + (uint64_t)i;
        arr[i].variant = variant;
        arr[i].zero = 0.0;
    }

    if (use_experiment) {
        cimba_run_experiment(arr, NTRIALS, sizeof arr[0], trial_func);
    }
    else {
        for (int i = 0; i < NTRIALS; i++) {
            trial_func(&arr[i]);
        }
    }

    int bad = 0;
    for (int i = 0; i < NTRIALS; i++) {
        if (arr[i].calls != 1u) bad++;
    }
    printf("    %s: all %d trials returned, %d not called exactly once, result[0] = %g\n",
           use_experiment ? "experiment" : "sequential", NTRIALS, bad, arr[0].result);
    fflush(stdout);
    return bad;
}

static int in_child(const int variant, const int use_experiment)
{
    fflush(stdout);
    const pid_t pid = fork();
    if (pid == 0) {
        _exit(run(variant, use_experiment) ? 1 : 0);
    }
    int st = 0;
    waitpid(pid, &st, 0);
    if (WIFSIGNALED(st)) {
        printf("    %s: child KILLED by signal %d (%s) - no trial results at all\n",
               use_experiment ? "experiment" : "sequential", WTERMSIG(st),
               WTERMSIG(st) == SIGFPE ? "SIGFPE" : "other");
        return 2;
    }
    return WEXITSTATUS(st);
}

int main(void)
{
    int defect = 0;
    for (int variant = 0; variant < 2; variant++) {
        printf("variant %c (%s)\n", 'A' + variant,
               variant == 0 ? "cmb_random_std_beta(0.25, 2.0) in the trial"
                            : "1.0 / 0.0 as a no-data mark in the trial");
        const int rs = in_child(variant, 0);
        const int re = in_child(variant, 1);
        printf("  expected: sequential and experiment both complete (0 / 0), got %d / %d\n", rs, re);
        if ((variant == 1) && (rs != re)) defect = 1;
    }

    printf(defect ? "DEFECT: experiment is not equivalent to the sequential run\n" : "ok\n");
    return defect;
}
