/*
 * finding1.c - cmb_condition_signal() does not pass the signal on to the
 * observers of the condition's waiting list.
 *
 * Property C13: "A condition registered as an observer of a resource's waiting
 * list is signalled whenever that list is signalled".
 *
 * C2 is subscribed to the waiting list (guard) of condition C1. W2 waits on C2
 * for flag != 0. At t=1 the flag is set and C1 is signalled with
 * cmb_condition_signal(C1). Expected: the signal is forwarded to C2 and W2 is
 * resumed at t=1 with CMB_PROCESS_SUCCESS (that is what happens when the same
 * list is signalled through cmb_resourceguard_signal(&C1->guard), or when C1
 * itself receives a forwarded signal from a resource it observes, part B).
 * Got: W2 stays queued with a true predicate.
 */
#include <stdio.h>
#include <inttypes.h>
#include "cimba.h"

static struct cmb_condition *c1, *c2;
static struct cmb_resource *res;
static int flag;
static double woke1, woke2;
static int64_t sig2;

static bool pred(const struct cmb_condition *c, const struct cmb_process *p, const void *ctx)
{
    (void)c; (void)p; (void)ctx;
    return flag != 0;
}

static void *w1(struct cmb_process *me, void *ctx)
{
    (void)me; (void)ctx;
    (void)cmb_condition_wait(c1, pred, NULL);
    woke1 = cmb_time();
    return NULL;
}

static void *w2(struct cmb_process *me, void *ctx)
{
    (void)me; (void)ctx;
    sig2 = cmb_condition_wait(c2, pred, NULL);
    woke2 = cmb_time();
    return NULL;
}

static int mode;

static void *signaller(struct cmb_process *me, void *ctx)
{
    (void)me; (void)ctx;
    if (mode == 1) {
        (void)cmb_resource_acquire(res);
    }
    cmb_process_hold(1.0);
    flag = 1;
    if (mode == 0) {
        cmb_condition_signal(c1);      /* explicit signal of C1's list */
    }
    else {
        cmb_resource_release(res);     /* forwarded: res -> C1 -> C2 */
    }
    cmb_process_hold(2.0);
    /* t = 3: same list, signalled through its guard */
    cmb_resourceguard_signal(&(c1->guard));
    return NULL;
}

static void run(int m)
{
    mode = m;
    flag = 0;
    woke1 = woke2 = -1.0;
    sig2 = 99;
    cmb_event_queue_initialize(0.0);
    c1 = cmb_condition_create(); cmb_condition_initialize(c1, "C1");
    c2 = cmb_condition_create(); cmb_condition_initialize(c2, "C2");
    res = cmb_resource_create(); cmb_resource_initialize(res, "R");
    cmb_condition_subscribe(c1, &(res->guard));   /* C1 observes R  */
    cmb_condition_subscribe(c2, &(c1->guard));    /* C2 observes C1 */

    struct cmb_process *p[3];
    cmb_process_func *f[3] = { signaller, w1, w2 };
    const char *n[3] = { "signaller", "W1", "W2" };
    for (int i = 0; i < 3; i++) {
        p[i] = cmb_process_create();
        cmb_process_initialize(p[i], n[i], f[i], NULL, 0);
        cmb_process_start(p[i]);
    }

    cmb_event_queue_execute();
    for (int i = 0; i < 3; i++) {
        cmb_process_terminate(p[i]);
        cmb_process_destroy(p[i]);
    }
    cmb_condition_destroy(c1);
    cmb_condition_destroy(c2);
    cmb_resource_destroy(res);
    cmb_event_queue_terminate();
}

int main(void)
{
    cmb_logger_flags_off(CMB_LOGGER_INFO | CMB_LOGGER_WARNING);
    cmb_random_initialize(1u);
    int bad = 0;

    run(1);
    printf("B (control) release of R at t=1, forwarded R -> C1 -> C2:\n");
    printf("   expected W1 resumed at t=1, W2 resumed at t=1\n");
    printf("   got      W1 resumed at t=%g, W2 resumed at t=%g (signal %" PRIi64 ")\n", woke1, woke2, sig2);
    if (woke2 != 1.0) {
        printf("   (control failed as well)\n");
        bad = 1;
    }

    run(0);
    printf("A cmb_condition_signal(C1) at t=1, C2 observes C1's waiting list:\n");
    printf("   expected W1 resumed at t=1, W2 resumed at t=1 with signal 0\n");
    printf("   got      W1 resumed at t=%g, W2 resumed at t=%g (signal %" PRIi64 ")\n", woke1, woke2, sig2);
    if (woke2 != 1.0) {
        printf("   DEFECT: the explicit signal of C1 was not forwarded to its observer C2;\n"
               "   W2 sat in the queue with a true predicate until t=%g, when the same list\n"
               "   was signalled through cmb_resourceguard_signal()\n", woke2);
        bad = 1;
    }

    return bad;
}
