/*
 * finding2.c - A waiter that has been taken off a condition's queue (selected by
 * a signal, or cancelled) and then receives a foreign success code before its
 * own wakeup call leaves the wait with that call still scheduled. The stale
 * call then lands on whatever the process waits for next.
 *
 * The foreign success code here is a timer whose signal is CMB_PROCESS_SUCCESS
 * (cmb_process_timer_add(pp, dur, 0); the header allows any application-defined
 * signal, and cmi_resourceguard_wait_since()/cmb_process_hold() explicitly cater
 * for "a timer carrying the success code as its signal").
 *
 * Part A (C06, "changing the priority of a waiting process repositions it"):
 *   P is selected by cmb_condition_signal() at t=1, its success timer fires first
 *   in that instant, P returns and queues for resource R behind Q. The stale
 *   wakeup_event_condition() then strips P's record of waiting at R's guard, so
 *   cmb_process_priority_set(P, 10) at t=2 no longer moves P in R's queue.
 *   Expected grant order at t=5: P (priority 10) then Q (priority 0). Got Q, P.
 *   (Control: the same run without the timer gives P, Q.)
 *
 * Part B (C13, "cancel ... resuming it with the cancelled code", "no process
 *   whose predicate is false"): P is cancelled from condition C at t=1, the
 *   success timer fires first: cmb_condition_wait() returns SUCCESS with a false
 *   predicate, and the CANCELLED code ends P's next, unrelated wait for R.
 */
#include <stdio.h>
#include <inttypes.h>
#include "cimba.h"

static struct cmb_condition *cv;
static struct cmb_resource *res;
static struct cmb_process *P, *Q, *H, *S;
static int flag, use_timer, part;
static int norder;
static const char *order[4];
static int64_t p_cond_sig, p_acq_sig;
static double p_cond_time, p_acq_time;

static bool pred(const struct cmb_condition *c, const struct cmb_process *p, const void *ctx)
{
    (void)c; (void)p; (void)ctx;
    return flag != 0;
}

static void *holder(struct cmb_process *me, void *ctx)
{
    (void)me; (void)ctx;
    (void)cmb_resource_acquire(res);
    cmb_process_hold(5.0);
    cmb_resource_release(res);
    return NULL;
}

static void *qproc(struct cmb_process *me, void *ctx)
{
    (void)me; (void)ctx;
    cmb_process_hold(0.5);
    if (cmb_resource_acquire(res) == CMB_PROCESS_SUCCESS) {
        order[norder++] = "Q";
        cmb_resource_release(res);
    }
    return NULL;
}

static void *pproc(struct cmb_process *me, void *ctx)
{
    (void)ctx;
    if (use_timer) {
        (void)cmb_process_timer_add(me, 1.0, CMB_PROCESS_SUCCESS);
    }
    p_cond_sig = cmb_condition_wait(cv, pred, NULL);
    p_cond_time = cmb_time();
    cmb_process_timers_clear(me);

    p_acq_sig = cmb_resource_acquire(res);
    p_acq_time = cmb_time();
    if (p_acq_sig == CMB_PROCESS_SUCCESS) {
        order[norder++] = "P";
        cmb_resource_release(res);
    }
    return NULL;
}

static void *sproc(struct cmb_process *me, void *ctx)
{
    (void)me; (void)ctx;
    cmb_process_hold(1.0);          /* priority 5: runs before P's timer at t=1 */
    if (part == 0) {
        flag = 1;
        (void)cmb_condition_signal(cv);
        cmb_process_hold(1.0);
        cmb_process_priority_set(P, 10);   /* t=2: P should now go ahead of Q */
    }
    else {
        (void)cmb_condition_cancel(cv, P);
    }
    return NULL;
}

static void run(int prt, int timer)
{
    part = prt;
    use_timer = timer;
    flag = 0;
    norder = 0;
    p_cond_sig = p_acq_sig = 99;
    p_cond_time = p_acq_time = -1.0;

    cmb_event_queue_initialize(0.0);
    cv = cmb_condition_create(); cmb_condition_initialize(cv, "C");
    res = cmb_resource_create(); cmb_resource_initialize(res, "R");
    H = cmb_process_create(); cmb_process_initialize(H, "H", holder, NULL, 0);
    Q = cmb_process_create(); cmb_process_initialize(Q, "Q", qproc, NULL, 0);
    P = cmb_process_create(); cmb_process_initialize(P, "P", pproc, NULL, 0);
    S = cmb_process_create(); cmb_process_initialize(S, "S", sproc, NULL, 5);
    cmb_process_start(H);
    cmb_process_start(Q);
    cmb_process_start(P);
    cmb_process_start(S);
    cmb_event_queue_execute();

    struct cmb_process *all[4] = { H, Q, P, S };
    for (int i = 0; i < 4; i++) {
        cmb_process_terminate(all[i]);
        cmb_process_destroy(all[i]);
    }
    cmb_condition_destroy(cv);
    cmb_resource_destroy(res);
    cmb_event_queue_terminate();
}

int main(void)
{
    cmb_logger_flags_off(CMB_LOGGER_INFO | CMB_LOGGER_WARNING);
    cmb_random_initialize(1u);
    int bad = 0;

    run(0, 0);
    printf("A control (no timer): cond wait returned %" PRIi64 " at t=%g; grant order of R: %s %s\n",
           p_cond_sig, p_cond_time, norder > 0 ? order[0] : "-", norder > 1 ? order[1] : "-");
    if (!(norder == 2 && order[0][0] == 'P')) {
        printf("   control failed: expected P Q\n");
        bad = 1;
    }

    run(0, 1);
    printf("A with a success-coded timer at the instant of the signal:\n");
    printf("   cond wait returned %" PRIi64 " at t=%g (fine, P was selected)\n", p_cond_sig, p_cond_time);
    printf("   expected grant order of R after priority_set(P, 10): P Q\n");
    printf("   got                                                 : %s %s\n",
           norder > 0 ? order[0] : "-", norder > 1 ? order[1] : "-");
    if (!(norder == 2 && order[0][0] == 'P')) {
        printf("   DEFECT: the priority change did not reposition P in R's waiting list\n");
        bad = 1;
    }

    run(1, 1);
    printf("B cmb_condition_cancel(C, P) at t=1, success-coded timer in the same instant:\n");
    printf("   expected cmb_condition_wait -> %" PRIi64 " (CANCELLED) at t=1, then P waits for R until t=5 and gets it (0)\n",
           (int64_t)CMB_PROCESS_CANCELLED);
    printf("   got      cmb_condition_wait -> %" PRIi64 " at t=%g (predicate is %s), cmb_resource_acquire -> %" PRIi64 " at t=%g\n",
           p_cond_sig, p_cond_time, flag ? "true" : "false", p_acq_sig, p_acq_time);
    if (p_cond_sig != CMB_PROCESS_CANCELLED || p_acq_sig != CMB_PROCESS_SUCCESS) {
        printf("   DEFECT: success with a false predicate, and the cancelled code ended an unrelated wait\n");
        bad = 1;
    }

    return bad;
}
