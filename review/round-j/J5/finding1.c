/*
 * finding1.c - cmb_process_resume() aimed at a process that was stopped while it
 * was suspended in cmb_process_yield() aborts the program (release assertion).
 *
 * Expected (cmb_process.h, cmb_process_resume): "If something else has ended the
 * yield by the time the event runs, the signal is dropped". The same call on a
 * process that ended in any other way (returned, exited, stopped while holding)
 * IS dropped quietly.
 * Got: Fatal: Assert "cp->status == CMI_COROUTINE_RUNNING" failed in
 * cmi_coroutine_resume(), program aborted.
 *
 * Build: gcc -std=c17 -D_POSIX_C_SOURCE=200809L -O1 -g -Iinclude -Isrc -I_b/codegen \
 *        finding1.c -o finding1 _b/src/libcimba.so -lm -lpthread -Wl,-rpath,$PWD/_b/src
 */
#include <stdio.h>
#include <stdlib.h>
#include <sys/wait.h>
#include <unistd.h>
#include <cimba.h>

static struct cmb_process *P, *Q;

static void *pfunc(struct cmb_process *me, void *ctx)
{
    (void)me; (void)ctx;
    const int64_t sig = cmb_process_yield();
    printf("P: yield returned %ld\n", (long)sig);
    return NULL;
}

static void *qfunc(struct cmb_process *me, void *ctx)
{
    (void)me; (void)ctx;
    cmb_process_hold(1.0);
    cmb_process_stop(P, NULL);      /* ends P's yield for good */
    cmb_process_resume(P, 7);       /* e.g. from a process that does not know P is gone */
    cmb_process_hold(1.0);
    printf("Q: still alive at t=%g, the resume was dropped\n", cmb_time());
    return NULL;
}

static int scenario(void)
{
    cmb_logger_flags_off(CMB_LOGGER_INFO | CMB_LOGGER_WARNING);
    cmb_event_queue_initialize(0.0);
    P = cmb_process_create(); cmb_process_initialize(P, "P", pfunc, NULL, 0); cmb_process_start(P);
    Q = cmb_process_create(); cmb_process_initialize(Q, "Q", qfunc, NULL, 0); cmb_process_start(Q);
    cmb_event_queue_execute();
    cmb_process_terminate(P); cmb_process_destroy(P);
    cmb_process_terminate(Q); cmb_process_destroy(Q);
    cmb_event_queue_terminate();
    return 0;
}

int main(void)
{
    printf("expected: the resume signal for the stopped process is dropped, run completes\n");
    fflush(stdout);
    const pid_t pid = fork();
    if (pid == 0) { _exit(scenario()); }
    int st = 0; waitpid(pid, &st, 0);
    if (WIFSIGNALED(st)) { printf("got: program killed by signal %d (library abort)\nDEFECT\n", WTERMSIG(st)); return 1; }
    if (WEXITSTATUS(st) != 0) { printf("got: exit status %d\nDEFECT\n", WEXITSTATUS(st)); return 1; }
    printf("got: run completed\nok\n");
    return 0;
}
