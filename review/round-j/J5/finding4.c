/*
 * finding4.c - cmb_timeseries_median() and cmb_timeseries_fivenum_print() abort
 * the program when the time series is empty (never recorded into, or reset).
 *
 * Expected: like cmb_dataset_median() ("Calling it on an empty dataset will
 * generate a warning and return zero"), cmb_timeseries_summarize(),
 * cmb_timeseries_histogram_print() and cmb_timeseries_print(), which all accept
 * an empty series. The headers of the two functions state no precondition.
 * Got: Fatal: Assert "tsp->wa != NULL" failed, program aborted.
 */
#include <stdio.h>
#include <stdlib.h>
#include <sys/wait.h>
#include <unistd.h>
#include <cimba.h>

static int scenario(int which)
{
    cmb_logger_flags_off(CMB_LOGGER_INFO | CMB_LOGGER_WARNING);
    cmb_event_queue_initialize(0.0);

    /* The history of a resource that nobody switched the recording on for */
    struct cmb_resource *rp = cmb_resource_create();
    cmb_resource_initialize(rp, "R");
    struct cmb_timeseries *ts = cmb_resource_history(rp);
    printf("samples in history: %lu\n", (unsigned long)cmb_timeseries_count(ts));

    struct cmb_wtdsummary ws;
    (void)cmb_timeseries_summarize(ts, &ws);          /* fine */
    cmb_timeseries_histogram_print(ts, stdout, 5u, 0.0, 1.0);   /* fine */
    fflush(stdout);
    if (which == 0) {
        printf("median %g\n", cmb_timeseries_median(ts));
    }
    else {
        cmb_timeseries_fivenum_print(ts, stdout, true);
    }

    cmb_resource_destroy(rp);
    cmb_event_queue_terminate();
    return 0;
}

int main(void)
{
    int bad = 0;
    for (int which = 0; which < 2; which++) {
        printf("expected: %s on an empty time series returns\n",
               which == 0 ? "cmb_timeseries_median()" : "cmb_timeseries_fivenum_print()");
        fflush(stdout);
        const pid_t pid = fork();
        if (pid == 0) { _exit(scenario(which)); }
        int st = 0; waitpid(pid, &st, 0);
        if (WIFSIGNALED(st)) { printf("got: program killed by signal %d (library abort)\n", WTERMSIG(st)); bad = 1; }
        else if (WEXITSTATUS(st) != 0) { printf("got: exit status %d\n", WEXITSTATUS(st)); bad = 1; }
        else { printf("got: returned\n"); }
    }
    printf(bad ? "DEFECT\n" : "ok\n");
    return bad;
}
