/*
 * finding3.c - cmb_process_priority_set() aborts the program when the event
 * queue has been emptied with cmb_event_queue_clear() while the target process
 * was holding or had a timer running.
 *
 * Expected: cmb_event_queue_clear() "just cancels all events in the queue"; the
 * processes are still there and may be given a new priority (the header of
 * cmb_process_priority_set() states no precondition).
 * Got: Fatal: Assert "cmi_hashheap_count(event_queue) > 0u" (or
 * "cmi_hashheap_is_enqueued(event_queue, handle)") failed in
 * cmb_event_reprioritize(), program aborted.
 */
#include <stdio.h>
#include <stdlib.h>
#include <sys/wait.h>
#include <unistd.h>
#include <cimba.h>

static struct cmb_process *A, *B;

static void *afunc(struct cmb_process *me, void *ctx)
{
    (void)me; (void)ctx;
    (void)cmb_process_hold(100.0);
    return NULL;
}

static void *bfunc(struct cmb_process *me, void *ctx)
{
    (void)me; (void)ctx;
    cmb_process_hold(1.0);
    cmb_event_queue_clear();                 /* end of the run, nothing more will happen */
    printf("B: queue cleared, %lu events left\n", (unsigned long)cmb_event_queue_count());
    cmb_process_priority_set(A, 5);          /* A is still a live (suspended) process */
    printf("B: priority of A is now %ld\n", (long)cmb_process_priority(A));
    return NULL;
}

static int scenario(void)
{
    cmb_logger_flags_off(CMB_LOGGER_INFO | CMB_LOGGER_WARNING);
    cmb_event_queue_initialize(0.0);
    A = cmb_process_create(); cmb_process_initialize(A, "A", afunc, NULL, 0); cmb_process_start(A);
    B = cmb_process_create(); cmb_process_initialize(B, "B", bfunc, NULL, 0); cmb_process_start(B);
    cmb_event_queue_execute();
    cmb_process_stop(A, NULL);
    cmb_process_terminate(A); cmb_process_destroy(A);
    cmb_process_terminate(B); cmb_process_destroy(B);
    cmb_event_queue_terminate();
    return 0;
}

int main(void)
{
    printf("expected: priority of A changed to 5, run completes\n");
    fflush(stdout);
    const pid_t pid = fork();
    if (pid == 0) { _exit(scenario()); }
    int st = 0; waitpid(pid, &st, 0);
    if (WIFSIGNALED(st)) { printf("got: program killed by signal %d (library abort)\nDEFECT\n", WTERMSIG(st)); return 1; }
    if (WEXITSTATUS(st) != 0) { printf("got: exit status %d\nDEFECT\n", WEXITSTATUS(st)); return 1; }
    printf("got: run completed\nok\n");
    return 0;
}
