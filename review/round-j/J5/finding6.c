/*
 * finding6.c - cmb_dataset_PACF() / cmb_timeseries_PACF() with n = 65535 lags
 * (the largest value the uint16_t parameter of the time series version can
 * take) writes far outside its work array: the size (n + 1) * (n + 1) is
 * computed in `unsigned`, 65536 * 65536 wraps to 0, calloc(0, 8) succeeds, and
 * the first store phi[1][1] goes 65536 doubles past a zero-size block.
 *
 * Expected: the call returns the coefficients, or at worst reports that it
 * cannot get the memory. Precondition 0 < n < count - 1 holds (65600 samples).
 * Got: SIGSEGV in cmb_dataset_PACF() (cmb_dataset.c:677), AddressSanitizer:
 * "SEGV ... caused by a WRITE memory access".
 */
#include <stdio.h>
#include <stdlib.h>
#include <sys/wait.h>
#include <unistd.h>
#include <cimba.h>

static int scenario(void)
{
    cmb_logger_flags_off(CMB_LOGGER_INFO | CMB_LOGGER_WARNING);
    struct cmb_timeseries t;
    cmb_timeseries_initialize(&t);
    uint64_t s = 1u;
    for (int i = 0; i < 65600; i++) {
        s = s * 6364136223846793005ULL + 1442695040888963407ULL;
        (void)cmb_timeseries_add(&t, (double)(s >> 40) / 1e3, (double)i);
    }

    const uint16_t n = 65535u;
    double *acf = calloc(n + 1u, sizeof(double));
    double *pacf = calloc(n + 1u, sizeof(double));
    /* ACFs "already calculated", as the API allows, to keep the run short */
    acf[0] = 1.0;
    for (unsigned i = 1u; i <= n; i++) { acf[i] = 0.5 / (double)i; }

    printf("calling cmb_timeseries_PACF(n = %u) on %lu samples\n", (unsigned)n, (unsigned long)cmb_timeseries_count(&t));
    fflush(stdout);
    cmb_timeseries_PACF(&t, n, pacf, acf);
    printf("returned, pacf[1] = %g\n", pacf[1]);
    free(acf); free(pacf);
    cmb_timeseries_terminate(&t);
    return 0;
}

int main(void)
{
    printf("expected: the call returns (or fails cleanly for lack of memory)\n");
    fflush(stdout);
    const pid_t pid = fork();
    if (pid == 0) { _exit(scenario()); }
    int st = 0; waitpid(pid, &st, 0);
    if (WIFSIGNALED(st)) { printf("got: program killed by signal %d%s\nDEFECT\n", WTERMSIG(st), WTERMSIG(st) == 11 ? " (SIGSEGV, out-of-bounds write)" : ""); return 1; }
    if (WEXITSTATUS(st) != 0) { printf("got: exit status %d\nDEFECT\n", WEXITSTATUS(st)); return 1; }
    printf("got: returned\nok\n");
    return 0;
}
