/*
 * finding2.c - A stale condition wakeup call takes away the record of what the
 * process is waiting for NOW; a later cmb_process_stop() then leaves the stopped
 * process in the waiting list of a resource guard, and once it is destroyed the
 * guard reads (and would resume) freed memory.
 *
 * Ingredients, all documented API:
 *  - P sets a timer whose signal value is 0 (nothing in cmb_process_timer_add()
 *    excludes it; cmb_process.c even mentions "a timer carrying the success code
 *    as its signal") and waits on a condition variable.
 *  - In the instant the timer is due, the condition is signalled first: P is
 *    taken off the condition's list and its wakeup call is scheduled. The timer
 *    event runs before that call, P sees "success, no longer in the list" and
 *    cmb_condition_wait() returns 0 - leaving the wakeup call in the event queue.
 *  - P goes on to wait for a resource. The stale wakeup_event_condition() now
 *    runs and removes P's (only) RESOURCE awaitable - the one for the resource.
 *  - Q stops P. cmi_process_cancel_awaiteds() finds nothing to cancel, so P stays
 *    in the resource guard's waiting list. P is terminated and destroyed.
 *  - Q releases the resource: cmb_resourceguard_signal() picks the freed P.
 *
 * Expected: after cmb_process_stop(P) no guard has P in its waiting list.
 * Got: the resource guard still holds 1 waiter (P); with AddressSanitizer:
 * heap-use-after-free in cmb_resourceguard_signal() (cmb_process_priority(pp)).
 * (In a build without NDEBUG the same scenario dies earlier: Assert
 * "found == true" / "!cmi_slist_is_empty(&(pp->awaits))" in
 * wakeup_event_condition().)
 */
#include <stdio.h>
#include <stdlib.h>
#include <sys/wait.h>
#include <unistd.h>
#include <cimba.h>
#include "cmi_hashheap.h"

static struct cmb_process *P, *Q;
static struct cmb_condition *C;
static struct cmb_resource *R;
static int gate;
static unsigned long left_behind = 99;

static bool demand(const struct cmb_condition *c, const struct cmb_process *p, const void *x)
{
    (void)c; (void)p; (void)x;
    return gate != 0;
}

static void *pfunc(struct cmb_process *me, void *ctx)
{
    (void)ctx;
    (void)cmb_process_timer_add(me, 1.0, 0);
    int64_t sig = cmb_condition_wait(C, demand, NULL);
    printf("P: cmb_condition_wait returned %ld at t=%g\n", (long)sig, cmb_time());
    sig = cmb_resource_acquire(R);        /* held by Q, P waits here */
    printf("P: cmb_resource_acquire returned %ld at t=%g\n", (long)sig, cmb_time());
    return NULL;
}

static void *qfunc(struct cmb_process *me, void *ctx)
{
    (void)me; (void)ctx;
    (void)cmb_resource_acquire(R);
    (void)cmb_process_hold(1.0);
    gate = 1;
    (void)cmb_condition_signal(C);        /* t = 1, just before P's timer event */
    (void)cmb_process_hold(1.0);          /* t = 2: P waits for R by now */
    cmb_process_stop(P, NULL);
    left_behind = (unsigned long)cmi_hashheap_count((struct cmi_hashheap *)&(R->guard));
    printf("Q: stopped P; waiters still listed at the guard of R: %lu\n", left_behind);
    cmb_process_terminate(P);
    cmb_process_destroy(P);
    P = NULL;
    (void)cmb_process_hold(1.0);
    cmb_resource_release(R);              /* the guard turns to its first waiter */
    printf("Q: released R\n");
    return NULL;
}

static int scenario(void)
{
    cmb_logger_flags_off(CMB_LOGGER_INFO | CMB_LOGGER_WARNING);
    cmb_event_queue_initialize(0.0);
    C = cmb_condition_create(); cmb_condition_initialize(C, "C");
    R = cmb_resource_create(); cmb_resource_initialize(R, "R");
    Q = cmb_process_create(); cmb_process_initialize(Q, "Q", qfunc, NULL, 0); cmb_process_start(Q);
    P = cmb_process_create(); cmb_process_initialize(P, "P", pfunc, NULL, 0); cmb_process_start(P);
    cmb_event_queue_execute();
    fflush(stdout);
    return (left_behind == 0u) ? 0 : 3;
}

int main(void)
{
    printf("expected: 0 waiters listed at the guard of R after P was stopped\n");
    fflush(stdout);
    const pid_t pid = fork();
    if (pid == 0) { _exit(scenario()); }
    int st = 0; waitpid(pid, &st, 0);
    if (WIFSIGNALED(st)) { printf("got: program killed by signal %d\nDEFECT\n", WTERMSIG(st)); return 1; }
    if (WEXITSTATUS(st) != 0) { printf("got: the stopped (and destroyed) process is still in the waiting list (status %d)\nDEFECT\n", WEXITSTATUS(st)); return 1; }
    printf("got: clean\nok\n");
    return 0;
}
