/*
 * finding5.c - cmb_dataset_histogram_print() takes the number of bins as an
 * `unsigned`, but the bin index is computed in a uint16_t: with more than 65535
 * bins the double-to-uint16_t conversion is out of range (undefined behaviour,
 * -fsanitize=float-cast-overflow: "69999.5 is outside the range of representable
 * values of type 'short unsigned int'", cmb_dataset.c:502) and samples land in
 * the wrong bin.
 *
 * Expected: sample 0.5 in bin [0, 1) and sample 69999.5 in bin [69999, 70000),
 * i.e. bars on output lines 3 and 70002.
 * Got: bars on lines 3 and 4466 (bin [4463, 4464) = 69999 mod 65536).
 */
#include <stdio.h>
#include <stdlib.h>
#include <string.h>
#include <cimba.h>

int main(void)
{
    cmb_logger_flags_off(CMB_LOGGER_INFO | CMB_LOGGER_WARNING);
    struct cmb_dataset d;
    cmb_dataset_initialize(&d);
    (void)cmb_dataset_add(&d, 0.5);
    (void)cmb_dataset_add(&d, 69999.5);

    FILE *fp = tmpfile();
    if (fp == NULL) { perror("tmpfile"); return 2; }
    cmb_dataset_histogram_print(&d, fp, 70000u, 0.0, 70000.0);
    rewind(fp);

    char line[256];
    long lineno = 0, bars[8], nbars = 0;
    while (fgets(line, sizeof line, fp) != NULL) {
        lineno++;
        if (strchr(line, '#') != NULL && nbars < 8) { bars[nbars++] = lineno; printf("bar on line %ld: %s", lineno, line); }
    }
    fclose(fp);
    cmb_dataset_terminate(&d);

    printf("expected: bars on lines 3 and 70002\n");
    printf("got: %ld bars, on lines %ld and %ld\n", nbars, nbars > 0 ? bars[0] : -1, nbars > 1 ? bars[1] : -1);
    if (nbars == 2 && bars[0] == 3 && bars[1] == 70002) { printf("ok\n"); return 0; }
    printf("DEFECT\n");
    return 1;
}
