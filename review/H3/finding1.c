/*
 * finding1.c - C07: a preempted process is never notified with
 * CMB_PROCESS_PREEMPTED when an ordinary cmb_process_interrupt() for it is
 * executed in the same instant before the (already scheduled) notification.
 *
 * Victim  (priority 1)  acquires 5 of 5 at t=0 and holds for 10.
 * Mugger  (priority 10) wakes at t=1 and preempts 3 units: the victim loses all 5,
 *                       the PREEMPTED wakeup is scheduled with the victim's priority 1.
 * Nagger  (priority 5)  wakes at t=1 (after the mugger) and interrupts the victim
 *                       with the user signal 77, event priority 5.
 *
 * Expected: the victim's hold() returns CMB_PROCESS_PREEMPTED (-1) at t=1
 *           (possibly followed by 77), since all its units were taken at t=1.
 * Got:      hold() returns 77, the PREEMPTED notification is cancelled and never
 *           arrives; the victim believes it still holds 5 but holds 0.
 */
#include <inttypes.h>
#include <stdio.h>
#include "cimba.h"

static struct cmb_resourcepool *pool;
static struct cmb_process *victim, *mugger, *nagger;
static int n_preempted_seen = 0;
static int n_other_seen = 0;
static uint64_t believed = 0;
static int bad = 0;

static void *victim_f(struct cmb_process *me, void *ctx)
{
    (void)ctx;
    int64_t sig = cmb_resourcepool_acquire(pool, 5u);
    if (sig == CMB_PROCESS_SUCCESS) believed = 5u;
    printf("t=%g victim: acquire(5) -> %" PRIi64 ", holds %" PRIu64 "\n",
           cmb_time(), sig, cmb_resourcepool_held_by_process(pool, me));

    /* Keep holding/sleeping until t=10, recording every signal received */
    while (cmb_time() < 10.0) {
        sig = cmb_process_hold(10.0 - cmb_time());
        if (sig == CMB_PROCESS_PREEMPTED) {
            n_preempted_seen++;
            believed = 0u;
        }
        else if (sig != CMB_PROCESS_SUCCESS) {
            n_other_seen++;   /* by the documentation: holdings unchanged */
        }
        printf("t=%g victim: hold -> %" PRIi64 ", believes %" PRIu64 ", really holds %" PRIu64 "\n",
               cmb_time(), sig, believed, cmb_resourcepool_held_by_process(pool, me));
    }

    const uint64_t really = cmb_resourcepool_held_by_process(pool, me);
    if (believed != really) {
        printf("DEFECT: at t=%g victim believes it holds %" PRIu64 " (never saw PREEMPTED), really holds %" PRIu64 "\n",
               cmb_time(), believed, really);
        bad = 1;
    }
    /* A well-behaved program would now call cmb_resourcepool_release(pool, believed)
     * which aborts in cmi_hashheap_item() (assert idx != 0) - not done here. */
    return NULL;
}

static void *mugger_f(struct cmb_process *me, void *ctx)
{
    (void)ctx;
    (void)cmb_process_hold(1.0);
    const int64_t sig = cmb_resourcepool_preempt(pool, 3u);
    printf("t=%g mugger: preempt(3) -> %" PRIi64 ", holds %" PRIu64 ", victim holds %" PRIu64 "\n",
           cmb_time(), sig, cmb_resourcepool_held_by_process(pool, me),
           cmb_resourcepool_held_by_process(pool, victim));
    (void)cmb_process_hold(20.0);
    return NULL;
}

static void *nagger_f(struct cmb_process *me, void *ctx)
{
    (void)me; (void)ctx;
    (void)cmb_process_hold(1.0);
    printf("t=%g nagger: interrupts victim with 77, event priority 5\n", cmb_time());
    cmb_process_interrupt(victim, 77, 5);
    return NULL;
}

int main(void)
{
    cmb_logger_flags_off(CMB_LOGGER_INFO | CMB_LOGGER_WARNING);
    cmb_random_initialize(1u);
    cmb_event_queue_initialize(0.0);

    pool = cmb_resourcepool_create();
    cmb_resourcepool_initialize(pool, "pool", 5u);

    victim = cmb_process_create();
    cmb_process_initialize(victim, "victim", victim_f, NULL, 1);
    mugger = cmb_process_create();
    cmb_process_initialize(mugger, "mugger", mugger_f, NULL, 10);
    nagger = cmb_process_create();
    cmb_process_initialize(nagger, "nagger", nagger_f, NULL, 5);
    cmb_process_start(victim);
    cmb_process_start(mugger);
    cmb_process_start(nagger);

    cmb_event_queue_execute();

    printf("expected: victim sees CMB_PROCESS_PREEMPTED exactly once at t=1\n");
    printf("got:      PREEMPTED seen %d time(s), other signals seen %d time(s)\n",
           n_preempted_seen, n_other_seen);
    if (n_preempted_seen != 1) {
        bad = 1;
    }
    printf(bad ? "FAIL (defect shows)\n" : "OK\n");
    return bad;
}
