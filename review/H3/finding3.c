/*
 * finding3.c - C07: "the amount in use always equals the sum of the amounts held
 * by the individual processes" is observably false in the middle of a preemption.
 *
 * cmi_pool_acquire_inner() takes the victim's record out of the holders' heap and
 * then calls cmi_process_cancel_awaiteds(victim) BEFORE it has credited the loot to
 * the preemptor / adjusted in_use. If the victim had already been selected by a
 * resource guard (its wakeup is on its way), cmi_process_cancel_awaiteds() rings
 * that guard, and the signal is forwarded to the observers of the guard, i.e. to
 * user supplied condition predicates (cmb_condition_subscribe() is a documented
 * mode). Those predicates see a pool whose in_use exceeds the sum of all holdings.
 *
 * pool capacity 5.
 * t=0  Keeper (priority 20) acquires 3.  Victim (priority 1) acquires 2, then asks
 *      for 2 more and waits.  Watcher waits on a condition subscribed to the pool's
 *      guard; its predicate is true iff in_use != sum of holdings.
 * t=1  Keeper releases 1 -> Victim is selected, its wakeup is on its way.
 * t=1  Mugger (priority 10) preempts 3: takes the 1 available, then mugs Victim.
 *
 * Expected: every evaluation of the predicate sees in_use == sum of holdings.
 * Got:      an evaluation with in_use 5, sum of holdings 3.
 */
#include <inttypes.h>
#include <stdio.h>
#include "cimba.h"

static struct cmb_resourcepool *pool;
static struct cmb_condition *cond;
static struct cmb_process *keeper, *victim, *mugger, *watcher;
static int n_eval = 0, n_bad = 0;

static uint64_t sum_held(void)
{
    return cmb_resourcepool_held_by_process(pool, keeper)
         + cmb_resourcepool_held_by_process(pool, victim)
         + cmb_resourcepool_held_by_process(pool, mugger)
         + cmb_resourcepool_held_by_process(pool, watcher);
}

static bool inconsistent(const struct cmb_condition *c, const struct cmb_process *p, const void *ctx)
{
    (void)c; (void)p; (void)ctx;
    const uint64_t in_use = cmb_resourcepool_in_use(pool);
    const uint64_t sum = sum_held();
    n_eval++;
    printf("t=%g   predicate evaluated: in_use %" PRIu64 ", sum of holdings %" PRIu64 "%s\n",
           cmb_time(), in_use, sum, (in_use != sum) ? "   <-- DEFECT" : "");
    if (in_use != sum) {
        n_bad++;
    }
    return (in_use != sum);
}

static void *keeper_f(struct cmb_process *me, void *ctx)
{
    (void)me; (void)ctx;
    (void)cmb_resourcepool_acquire(pool, 3u);
    (void)cmb_process_hold(1.0);
    printf("t=%g keeper: releases 1\n", cmb_time());
    cmb_resourcepool_release(pool, 1u);
    (void)cmb_process_hold(100.0);
    return NULL;
}

static void *victim_f(struct cmb_process *me, void *ctx)
{
    (void)ctx;
    (void)cmb_resourcepool_acquire(pool, 2u);
    const int64_t sig = cmb_resourcepool_acquire(pool, 2u);
    printf("t=%g victim: second acquire -> %" PRIi64 ", holds %" PRIu64 "\n",
           cmb_time(), sig, cmb_resourcepool_held_by_process(pool, me));
    (void)cmb_process_hold(100.0);
    return NULL;
}

static void *mugger_f(struct cmb_process *me, void *ctx)
{
    (void)ctx;
    (void)cmb_process_hold(1.0);
    printf("t=%g mugger: preempt(3)\n", cmb_time());
    const int64_t sig = cmb_resourcepool_preempt(pool, 3u);
    printf("t=%g mugger: preempt(3) -> %" PRIi64 ", holds %" PRIu64 "\n",
           cmb_time(), sig, cmb_resourcepool_held_by_process(pool, me));
    (void)cmb_process_hold(100.0);
    return NULL;
}

static void *watcher_f(struct cmb_process *me, void *ctx)
{
    (void)me; (void)ctx;
    const int64_t sig = cmb_condition_wait(cond, inconsistent, NULL);
    printf("t=%g watcher: woken with %" PRIi64 " because in_use != sum of holdings was observed\n",
           cmb_time(), sig);
    return NULL;
}

static void end_evt(void *s, void *o)
{
    (void)s; (void)o;
    cmb_event_queue_clear();
}

int main(void)
{
    cmb_logger_flags_off(CMB_LOGGER_INFO | CMB_LOGGER_WARNING);
    cmb_random_initialize(1u);
    cmb_event_queue_initialize(0.0);

    pool = cmb_resourcepool_create();
    cmb_resourcepool_initialize(pool, "pool", 5u);
    cond = cmb_condition_create();
    cmb_condition_initialize(cond, "cond");
    cmb_condition_subscribe(cond, &(pool->guard));

    keeper = cmb_process_create();
    cmb_process_initialize(keeper, "keeper", keeper_f, NULL, 20);
    victim = cmb_process_create();
    cmb_process_initialize(victim, "victim", victim_f, NULL, 1);
    mugger = cmb_process_create();
    cmb_process_initialize(mugger, "mugger", mugger_f, NULL, 10);
    watcher = cmb_process_create();
    cmb_process_initialize(watcher, "watcher", watcher_f, NULL, 0);
    cmb_process_start(keeper);
    cmb_process_start(victim);
    cmb_process_start(mugger);
    cmb_process_start(watcher);

    (void)cmb_event_schedule(end_evt, NULL, NULL, 50.0, 0);
    cmb_event_queue_execute();

    printf("expected: 0 inconsistent observations\n");
    printf("got:      %d inconsistent observation(s) in %d evaluations\n", n_bad, n_eval);
    printf(n_bad ? "FAIL (defect shows)\n" : "OK\n");
    return n_bad ? 1 : 0;
}
