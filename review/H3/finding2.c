/*
 * finding2.c - C07: a multi-step acquire that is preempted in the middle returns
 * a NON-preempted signal ("interrupted, holding unchanged") although the caller
 * has lost everything, because the PREEMPTED notification is an ordinary event
 * queued at the priority the victim had when it was mugged, and another wakeup
 * for the victim, scheduled later in the same instant, can overtake it.
 *
 * pool capacity 5.
 * t=0  Keeper (priority 1)  acquires 3 and sleeps.
 * t=0  Victim (priority 1)  acquires 2 (success, holds 2), then acquires 2 more:
 *                           nothing available, waits holding 2.
 * t=1  Mugger (priority 10) preempts 5: takes the 2 of Victim and the 3 of Keeper.
 *                           Victim's PREEMPTED wakeup is scheduled with priority 1.
 * t=1  Super  (priority 5)  raises Victim's priority to 8 and gives it a
 *                           zero-delay timer (CMB_PROCESS_TIMEOUT). The timer event
 *                           gets priority 8 and runs before the PREEMPTED event.
 *
 * Expected: Victim's second acquire returns CMB_PROCESS_PREEMPTED (-1) holding 0,
 *           or, if it returns CMB_PROCESS_TIMEOUT, it still holds the 2 it had
 *           before the call ("interrupted -> unchanged").
 * Got:      it returns CMB_PROCESS_TIMEOUT (-5) and holds 0.
 */
#include <inttypes.h>
#include <stdio.h>
#include "cimba.h"

static struct cmb_resourcepool *pool;
static struct cmb_process *keeper, *victim, *mugger, *super;
static int bad = 0;

static void *keeper_f(struct cmb_process *me, void *ctx)
{
    (void)me; (void)ctx;
    (void)cmb_resourcepool_acquire(pool, 3u);
    (void)cmb_process_hold(100.0);
    return NULL;
}

static void *victim_f(struct cmb_process *me, void *ctx)
{
    (void)ctx;
    int64_t sig = cmb_resourcepool_acquire(pool, 2u);
    const uint64_t before = cmb_resourcepool_held_by_process(pool, me);
    printf("t=%g victim: acquire(2) -> %" PRIi64 ", holds %" PRIu64 "\n", cmb_time(), sig, before);

    sig = cmb_resourcepool_acquire(pool, 2u);
    const uint64_t after = cmb_resourcepool_held_by_process(pool, me);
    printf("t=%g victim: second acquire(2) -> %" PRIi64 ", held before the call %" PRIu64 ", holds now %" PRIu64 "\n",
           cmb_time(), sig, before, after);

    if (sig == CMB_PROCESS_PREEMPTED) {
        if (after != 0u) { printf("DEFECT: preempted but still holds\n"); bad = 1; }
    }
    else if (sig != CMB_PROCESS_SUCCESS) {
        printf("expected: signal %" PRIi64 " is not PREEMPTED, so the holding is unchanged = %" PRIu64 "\n", sig, before);
        printf("got:      holds %" PRIu64 "\n", after);
        if (after != before) {
            printf("DEFECT: interrupted acquire did not leave the caller with what it held before the call\n");
            bad = 1;
        }
    }

    /* The notification arrives only now, at the next yield */
    sig = cmb_process_hold(0.0);
    printf("t=%g victim: next hold(0) -> %" PRIi64 "\n", cmb_time(), sig);
    return NULL;
}

static void *mugger_f(struct cmb_process *me, void *ctx)
{
    (void)ctx;
    (void)cmb_process_hold(1.0);
    const int64_t sig = cmb_resourcepool_preempt(pool, 5u);
    printf("t=%g mugger: preempt(5) -> %" PRIi64 ", holds %" PRIu64 ", victim holds %" PRIu64 "\n",
           cmb_time(), sig, cmb_resourcepool_held_by_process(pool, me),
           cmb_resourcepool_held_by_process(pool, victim));
    (void)cmb_process_hold(100.0);
    return NULL;
}

static void *super_f(struct cmb_process *me, void *ctx)
{
    (void)me; (void)ctx;
    (void)cmb_process_hold(1.0);
    printf("t=%g super: raises victim to priority 8 and sets a zero-delay timeout for it\n", cmb_time());
    cmb_process_priority_set(victim, 8);
    (void)cmb_process_timer_add(victim, 0.0, CMB_PROCESS_TIMEOUT);
    return NULL;
}

static void end_evt(void *s, void *o)
{
    (void)s; (void)o;
    cmb_event_queue_clear();
}

int main(void)
{
    cmb_logger_flags_off(CMB_LOGGER_INFO | CMB_LOGGER_WARNING);
    cmb_random_initialize(1u);
    cmb_event_queue_initialize(0.0);

    pool = cmb_resourcepool_create();
    cmb_resourcepool_initialize(pool, "pool", 5u);

    keeper = cmb_process_create();
    cmb_process_initialize(keeper, "keeper", keeper_f, NULL, 1);
    victim = cmb_process_create();
    cmb_process_initialize(victim, "victim", victim_f, NULL, 1);
    mugger = cmb_process_create();
    cmb_process_initialize(mugger, "mugger", mugger_f, NULL, 10);
    super = cmb_process_create();
    cmb_process_initialize(super, "super", super_f, NULL, 5);
    cmb_process_start(keeper);
    cmb_process_start(victim);
    cmb_process_start(mugger);
    cmb_process_start(super);

    (void)cmb_event_schedule(end_evt, NULL, NULL, 50.0, 0);
    cmb_event_queue_execute();

    printf(bad ? "FAIL (defect shows)\n" : "OK\n");
    return bad;
}
