/*
 * finding3.c - a process waiting at a resource guard is left suspended after
 * it has reached the front of the waiting list with a satisfied demand,
 * because the process in front of it left the list (timeout, interrupt, stop)
 * and nobody looks at the new front.
 *
 * Only reachable through the public cmb_resourceguard API with demand
 * functions that differ between waiters (the pre-packaged resource, pool,
 * buffer and queue demands are the same for every waiter, so there the one in
 * front is never the only one blocked).
 *
 * include/cmb_resourceguard.h, cmb_resourceguard_wait(): "Enqueue and suspend
 * the calling process until it reaches the front of the priority queue and its
 * demand function returns true."
 * Property C04: "A process is never left suspended once what it waits for has
 * happened ..., whatever else is or is not in the event queue."
 *
 * Exit status 1 if the defect shows, 0 if not.
 */
#include <stdio.h>
#include <inttypes.h>
#include "cimba.h"
#include "cmi_resourcebase.h"

struct tank {
    struct cmi_resourcebase base;
    struct cmb_resourceguard guard;
    uint64_t units;
};

static struct tank tk;
static struct cmb_process *P1, *P2, *P3;
static double p2_resumed_at = -1.0;
static int64_t p2_sig = 99;

static bool enough(const struct cmi_resourcebase *rbp, const struct cmb_process *pp, const void *ctx)
{
    (void)pp;
    const struct tank *t = (const struct tank *)rbp;
    return t->units >= (uint64_t)(uintptr_t)ctx;
}

/* Wants 5 of the 3 units there are, gives up at t = 2 */
static void *p1func(struct cmb_process *me, void *ctx)
{
    (void)ctx;
    (void)cmb_process_timer_add(me, 2.0, CMB_PROCESS_TIMEOUT);
    const int64_t s = cmb_resourceguard_wait(&tk.guard, enough, (void *)(uintptr_t)5u);
    printf("[%g] P1: wait for 5 units returned %" PRIi64 " (timeout is %" PRIi64 ")\n",
           cmb_time(), s, CMB_PROCESS_TIMEOUT);
    return NULL;
}

/* Wants 1 unit, 3 are there all the time; queues up behind P1 (same priority, later) */
static void *p2func(struct cmb_process *me, void *ctx)
{
    (void)me; (void)ctx;
    (void)cmb_process_hold(1.0);
    p2_sig = cmb_resourceguard_wait(&tk.guard, enough, (void *)(uintptr_t)1u);
    p2_resumed_at = cmb_time();
    printf("[%g] P2: wait for 1 unit returned %" PRIi64 "\n", cmb_time(), p2_sig);
    return NULL;
}

/* Keeps the simulation going well past t = 2 without touching the tank */
static void *p3func(struct cmb_process *me, void *ctx)
{
    (void)me; (void)ctx;
    (void)cmb_process_hold(50.0);
    return NULL;
}

int main(void)
{
    cmb_logger_flags_off(CMB_LOGGER_INFO | CMB_LOGGER_WARNING);
    cmb_event_queue_initialize(0.0);
    cmi_resourcebase_initialize(&tk.base, "tank");
    cmb_resourceguard_initialize(&tk.guard, &tk.base);
    tk.units = 3u;

    P1 = cmb_process_create(); P2 = cmb_process_create(); P3 = cmb_process_create();
    cmb_process_initialize(P1, "P1", p1func, NULL, 0);
    cmb_process_initialize(P2, "P2", p2func, NULL, 0);
    cmb_process_initialize(P3, "P3", p3func, NULL, 0);
    cmb_process_start(P1); cmb_process_start(P2); cmb_process_start(P3);
    cmb_event_queue_execute();

    printf("end of run at t = %g, event queue empty\n", cmb_time());
    printf("expected: P2 at the front with a satisfied demand from t = 2 on, resumed with 0 at t = 2\n");
    if (p2_resumed_at < 0.0) {
        printf("got:      P2 never resumed (status %d, 1 = still suspended)\n", (int)cmb_process_status(P2));
        printf("DEFECT SHOWN\n");
        return 1;
    }
    printf("got:      P2 resumed with %" PRIi64 " at t = %g\n", p2_sig, p2_resumed_at);
    if ((p2_resumed_at != 2.0) || (p2_sig != CMB_PROCESS_SUCCESS)) {
        printf("DEFECT SHOWN\n");
        return 1;
    }
    printf("no defect\n");
    return 0;
}
