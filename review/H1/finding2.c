/*
 * finding2.c - a wait at a resource guard (object queue, buffer, resource,
 * pool, priority queue, condition) that is ended by a wake-up carrying
 * CMB_PROCESS_SUCCESS which did not come from the guard leaves the process
 * registered in the guard's waiting list. A later grant / signal then resumes
 * the process in whatever unrelated blocking call it is in by then.
 *
 * The foreign wake-up is cmb_process_resume(P, CMB_PROCESS_SUCCESS), the call
 * shown in tutorial/tut_3_1.c line 216 (a timer armed with signal 0 does the
 * same).
 *
 * Property C04: "Once a blocking call has returned, nothing that belonged to it
 * (its own wake-up, its registration ..., a grant that arrives too late) can
 * resume the process later" and "A process that holds for a duration d and gets
 * the success code back observes the clock at exactly its start time plus d".
 *
 * Built against the library as shipped (NDEBUG). A library built without
 * NDEBUG stops at cmb_assert_debug(!cmi_hashheap_is_enqueued(...)) in
 * cmb_resourceguard_wait() instead, which is the same defect seen earlier.
 *
 * Exit status 1 if the defect shows, 0 if not.
 */
#include <stdio.h>
#include <inttypes.h>
#include "cimba.h"

static struct cmb_process *C, *Q, *P, *S;
static struct cmb_objectqueue *oq;
static struct cmb_condition *cv;
static int flag = 0;
static int fail = 0;

static void check_hold(const char *who, double d)
{
    const double t0 = cmb_time();
    const int64_t s = cmb_process_hold(d);
    const double t1 = cmb_time();
    printf("[%5g] %s: hold(%g) started at %g: expected SUCCESS at %g, got signal %" PRIi64 " at %g\n",
           t1, who, d, t0, t0 + d, s, t1);
    if ((s == CMB_PROCESS_SUCCESS) && (t1 != t0 + d)) {
        printf("        ==> VIOLATION: resumed by a grant that belonged to the earlier wait\n");
        fail = 1;
    }
}

/* Variant (a): object queue */
static void *cfunc(struct cmb_process *me, void *ctx)
{
    (void)me; (void)ctx;
    void *obj = NULL;
    const int64_t s = cmb_objectqueue_get(oq, &obj);     /* empty at t = 0, waits */
    printf("[%5g] C: get returned %" PRIi64 " with object %p\n", cmb_time(), s, obj);
    check_hold("C", 10.0);                               /* 2 -> 12 expected */
    return NULL;
}

static void *qfunc(struct cmb_process *me, void *ctx)
{
    (void)me; (void)ctx;
    (void)cmb_process_hold(1.0);
    printf("[%5g] Q: cmb_process_resume(C, CMB_PROCESS_SUCCESS)\n", cmb_time());
    cmb_process_resume(C, CMB_PROCESS_SUCCESS);          /* C stays in get(), queue still empty */
    (void)cmb_process_hold(1.0);
    printf("[%5g] Q: put object 1\n", cmb_time());
    (void)cmb_objectqueue_put(oq, (void *)0x1);          /* C gets it at t = 2 */
    (void)cmb_process_hold(3.0);
    printf("[%5g] Q: put object 2 (nobody is waiting for it)\n", cmb_time());
    (void)cmb_objectqueue_put(oq, (void *)0x2);          /* t = 5: must not disturb C */
    return NULL;
}

/* Variant (b): condition variable */
static bool demand(const struct cmb_condition *c, const struct cmb_process *p, const void *x)
{
    (void)c; (void)p; (void)x;
    return flag != 0;
}

static void *pfunc(struct cmb_process *me, void *ctx)
{
    (void)me; (void)ctx;
    (void)cmb_process_hold(100.0);
    const int64_t s = cmb_condition_wait(cv, demand, NULL);
    printf("[%5g] P: condition wait returned %" PRIi64 ", predicate is %s; gives up, does something else\n",
           cmb_time(), s, flag ? "true" : "false");
    check_hold("P", 10.0);                               /* 101 -> 111 expected */
    return NULL;
}

static void *sfunc(struct cmb_process *me, void *ctx)
{
    (void)me; (void)ctx;
    (void)cmb_process_hold(101.0);
    printf("[%5g] S: cmb_process_resume(P, CMB_PROCESS_SUCCESS)\n", cmb_time());
    cmb_process_resume(P, CMB_PROCESS_SUCCESS);
    (void)cmb_process_hold(4.0);
    flag = 1;
    printf("[%5g] S: predicate true, cmb_condition_signal()\n", cmb_time());
    (void)cmb_condition_signal(cv);                      /* t = 105: P is no longer waiting */
    return NULL;
}

int main(void)
{
    cmb_logger_flags_off(CMB_LOGGER_INFO | CMB_LOGGER_WARNING);
    cmb_event_queue_initialize(0.0);
    oq = cmb_objectqueue_create(); cmb_objectqueue_initialize(oq, "oq", 10u);
    cv = cmb_condition_create(); cmb_condition_initialize(cv, "cv");
    C = cmb_process_create(); Q = cmb_process_create();
    P = cmb_process_create(); S = cmb_process_create();
    cmb_process_initialize(C, "C", cfunc, NULL, 0);
    cmb_process_initialize(Q, "Q", qfunc, NULL, 0);
    cmb_process_initialize(P, "P", pfunc, NULL, 0);
    cmb_process_initialize(S, "S", sfunc, NULL, 0);
    cmb_process_start(C); cmb_process_start(Q); cmb_process_start(P); cmb_process_start(S);
    cmb_event_queue_execute();
    printf("%s\n", fail ? "DEFECT SHOWN" : "no defect");
    return fail;
}
