/*
 * finding1.c - cmb_process_hold() returns CMB_PROCESS_SUCCESS before its time
 * is up, and leaves its own wake-up event behind, which later resumes the
 * process in a following, unrelated blocking call.
 *
 * Two variants of the same root cause (hold decides "was it my own wake-up?"
 * from the signal value instead of from which event woke it):
 *   (a) another process calls cmb_process_resume(A, CMB_PROCESS_SUCCESS),
 *       exactly the call shown in tutorial/tut_3_1.c line 216
 *   (b) the process has armed a timer whose signal is CMB_PROCESS_SUCCESS (0)
 *
 * Property C04: "A process that holds for a duration d and gets the success
 * code back observes the clock at exactly its start time plus d" and "Once a
 * blocking call has returned, nothing that belonged to it (its own wake-up ...)
 * can resume the process later".
 *
 * Exit status 1 if the defect shows, 0 if not.
 */
#include <stdio.h>
#include <inttypes.h>
#include "cimba.h"

static struct cmb_process *A, *B, *C;
static int fail = 0;

static void check_hold(const char *who, double d)
{
    const double t0 = cmb_time();
    const int64_t s = cmb_process_hold(d);
    const double t1 = cmb_time();
    printf("%s: hold(%g) started at %g: expected SUCCESS at %g (or a non-zero signal earlier), "
           "got signal %" PRIi64 " at %g\n", who, d, t0, t0 + d, s, t1);
    if ((s == CMB_PROCESS_SUCCESS) && (t1 != t0 + d)) {
        printf("   ==> VIOLATION: success code %g time units %s\n",
               (t1 < t0 + d) ? (t0 + d - t1) : (t1 - t0 - d), (t1 < t0 + d) ? "early" : "late");
        fail = 1;
    }
}

/* Variant (a): resumed by another process with the success code */
static void *afunc(struct cmb_process *me, void *ctx)
{
    (void)me; (void)ctx;
    check_hold("A", 10.0);      /* B resumes us at t = 3 */
    check_hold("A", 100.0);     /* the wake-up of the first hold hits this one at t = 10 */
    return NULL;
}

static void *bfunc(struct cmb_process *me, void *ctx)
{
    (void)me; (void)ctx;
    (void)cmb_process_hold(3.0);
    cmb_process_resume(A, CMB_PROCESS_SUCCESS);
    return NULL;
}

/* Variant (b): own timer with signal value 0 */
static void *cfunc(struct cmb_process *me, void *ctx)
{
    (void)ctx;
    (void)cmb_process_hold(200.0);                      /* keep the variants apart */
    (void)cmb_process_timer_add(me, 3.0, CMB_PROCESS_SUCCESS);
    check_hold("C", 10.0);      /* timer at 203 */
    check_hold("C", 100.0);     /* stale wake-up of the first hold at 210 */
    return NULL;
}

int main(void)
{
    cmb_logger_flags_off(CMB_LOGGER_INFO | CMB_LOGGER_WARNING);
    cmb_event_queue_initialize(0.0);
    A = cmb_process_create(); B = cmb_process_create(); C = cmb_process_create();
    cmb_process_initialize(A, "A", afunc, NULL, 0);
    cmb_process_initialize(B, "B", bfunc, NULL, 0);
    cmb_process_initialize(C, "C", cfunc, NULL, 0);
    cmb_process_start(A); cmb_process_start(B); cmb_process_start(C);
    cmb_event_queue_execute();
    printf("%s\n", fail ? "DEFECT SHOWN" : "no defect");
    return fail;
}
