#include <stdio.h>
#include <fenv.h>
#include <stdint.h>
#include "cimba.h"
static int seenB = -1;
static void *A(struct cmb_process *me, void *c){ fesetround(FE_UPWARD); cmb_process_hold(2.0); return NULL; }
static void *B(struct cmb_process *me, void *c){ cmb_process_hold(1.0); seenB = fegetround(); volatile long double x = 1.0L, y = 3.0L; volatile long double q = x / y; printf("B: fegetround=%d (nearest=%d upward=%d) 1/3L=%.21Lg\n", seenB, FE_TONEAREST, FE_UPWARD, q); return NULL; }
int main(void){
    cmb_logger_flags_off(CMB_LOGGER_INFO|CMB_LOGGER_WARNING);
    cmb_event_queue_initialize(0.0);
    struct cmb_process *a = cmb_process_create(), *b = cmb_process_create();
    cmb_process_initialize(a, "A", A, NULL, 0); cmb_process_initialize(b, "B", B, NULL, 0);
    cmb_process_start(a); cmb_process_start(b);
    cmb_event_queue_execute();
    printf("dispatcher after run: fegetround=%d\n", fegetround());
    return seenB != FE_TONEAREST;
}
