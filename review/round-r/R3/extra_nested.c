#include <stdio.h>
#include <stdint.h>
#include <stdlib.h>
#include "cimba.h"
struct inner { int calls; };
struct outer { int calls; struct inner in[3]; };
static void innerf(void *v){ struct inner *t = v; __atomic_fetch_add(&t->calls, 1, __ATOMIC_SEQ_CST); }
static void outerf(void *v){ struct outer *t = v; if (__atomic_fetch_add(&t->calls, 1, __ATOMIC_SEQ_CST) > 5) return; cimba_run_experiment(t->in, 3, sizeof t->in[0], innerf); }
int main(void){
    struct outer o[2] = {0};
    cimba_run_experiment(o, 2, sizeof o[0], outerf);
    int bad = 0;
    for (int i = 0; i < 2; i++) { printf("outer %d calls %d inner %d %d %d\n", i, o[i].calls, o[i].in[0].calls, o[i].in[1].calls, o[i].in[2].calls); if (o[i].calls != 1) bad = 1; for (int k = 0; k < 3; k++) if (o[i].in[k].calls != 1) bad = 1; }
    return bad;
}
