/*
 * finding2.c - C19: results that a trial leaves in a cmb_objectqueue of its
 * trial struct are gone (freed memory) when cimba_run_experiment() returns,
 * while the same trials run one after another in a single thread deliver them.
 *
 * Root cause: the queue tags come from the worker thread's thread-local
 * mempool, and worker_thread_func() frees all chunks of that pool
 * (cmi_mempool_cleanup) when the worker ends, whether or not objects from it
 * are still in use. The main thread then walks freed memory; in a main thread
 * that has not used an objectqueue itself, the first get also fails the
 * "mp->cookie == CMI_INITIALIZED" release assert of cmi_mempool_free().
 *
 * Build: see findings.md.  Exit status 0 = defect not present, 1 = defect shown.
 * (Built with -fsanitize=address the experiment run reports heap-use-after-free
 * in cmb_objectqueue_get.)
 */
#include <stdio.h>
#include <stdint.h>
#include <stdlib.h>
#include <string.h>
#include <unistd.h>
#include <sys/wait.h>
#include <malloc.h>
#include "cimba.h"

#define NTRIALS 8
#define NOBJ 300     /* more than one pool chunk of 256 tags */

struct trial {
    uint64_t seed;
    struct cmb_objectqueue *out;   /* the trial's results, collected by main */
};

static void *producer(struct cmb_process *me, void *ctx)
{
    cmb_unused(me);
    struct trial *t = ctx;
    for (intptr_t k = 1; k <= NOBJ; k++) {
        (void)cmb_process_hold(cmb_random_exponential(1.0));
        (void)cmb_objectqueue_put(t->out, (void *)(k * 1000 + (intptr_t)(t->seed % 1000u)));
    }
    return NULL;
}

static void trialf(void *v)
{
    struct trial *t = v;
    cmb_logger_flags_off(CMB_LOGGER_INFO | CMB_LOGGER_WARNING);
    cmb_random_initialize(t->seed);
    cmb_event_queue_initialize(0.0);
    struct cmb_process *p = cmb_process_create();
    cmb_process_initialize(p, "producer", producer, t, 0);
    cmb_process_start(p);
    cmb_event_queue_execute();
    cmb_process_terminate(p);
    cmb_process_destroy(p);
    cmb_event_queue_terminate();
}

/* mode 0: sequential; 1: experiment; 2: experiment, main thread has used an objectqueue before */
static int run_mode(int mode, int *mismatches)
{
    int fd[2];
    if (pipe(fd) != 0) return -1;
    fflush(NULL);
    const pid_t pid = fork();
    if (pid == 0) {
        close(fd[0]);
        /* glibc debugging aid: free() overwrites what it frees, so that stale reads show */
        (void)mallopt(M_PERTURB, 0x55);
        struct trial arr[NTRIALS];
        cmb_logger_flags_off(CMB_LOGGER_INFO | CMB_LOGGER_WARNING);
        for (int i = 0; i < NTRIALS; i++) {
            arr[i].seed = 500u + (uint64_t)i;
            arr[i].out = cmb_objectqueue_create();
            cmb_objectqueue_initialize(arr[i].out, "results", 1000u);
        }
        if (mode == 2) {
            struct cmb_objectqueue *scratch = cmb_objectqueue_create();
            cmb_objectqueue_initialize(scratch, "scratch", 4u);
            (void)cmb_objectqueue_put(scratch, NULL);
            cmb_objectqueue_destroy(scratch);
        }
        if (mode == 0) {
            for (int i = 0; i < NTRIALS; i++) trialf(&arr[i]);
        }
        else {
            cimba_run_experiment(arr, NTRIALS, sizeof arr[0], trialf);
            /* let the allocator reuse what the workers gave back */
            for (int i = 0; i < 64; i++) { void *m = malloc(4096); memset(m, 0x5a, 4096); }
        }
        int bad = 0;
        for (int i = 0; i < NTRIALS; i++) {
            if (cmb_objectqueue_length(arr[i].out) != NOBJ) bad++;
            for (intptr_t k = 1; k <= NOBJ; k++) {
                void *obj = NULL;
                if (cmb_objectqueue_length(arr[i].out) == 0u) { bad++; break; }
                (void)cmb_objectqueue_get(arr[i].out, &obj);
                if ((intptr_t)obj != k * 1000 + (intptr_t)(arr[i].seed % 1000u)) bad++;
            }
        }
        (void)!write(fd[1], &bad, sizeof bad);
        _exit(0);
    }
    close(fd[1]);
    const ssize_t got = read(fd[0], mismatches, sizeof *mismatches);
    close(fd[0]);
    int status = 0;
    waitpid(pid, &status, 0);
    if (WIFSIGNALED(status)) return 1000 + WTERMSIG(status);
    if (got != (ssize_t)sizeof *mismatches) return -2;
    return WEXITSTATUS(status);
}

int main(void)
{
    int m0 = -1, m1 = -1, m2 = -1;
    const int r0 = run_mode(0, &m0);
    printf("sequential, single thread              : status %d, wrong objects %d\n", r0, m0);
    const int r1 = run_mode(1, &m1);
    printf("cimba_run_experiment                   : status %d, wrong objects %d\n", r1, m1);
    const int r2 = run_mode(2, &m2);
    printf("cimba_run_experiment, main used a queue: status %d, wrong objects %d\n", r2, m2);
    printf("(status 1006 = SIGABRT, 1011 = SIGSEGV)\n");
    printf("expected: status 0 and 0 wrong objects in all three runs\n");
    const int defect = (r0 != 0) || (m0 != 0) || (r1 != 0) || (m1 != 0) || (r2 != 0) || (m2 != 0);
    printf(defect ? "DEFECT SHOWN\n" : "no defect\n");
    return defect;
}
