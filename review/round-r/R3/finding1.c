/*
 * finding1.c - C19: a trial that consumes a per-trial cmb_objectqueue which the
 * main thread has pre-filled aborts inside cimba_run_experiment(), although the
 * very same trials run fine one after another in a single thread, and although
 * they also run fine in the experiment if "something" has used an objectqueue
 * earlier on the same worker thread.
 *
 * Root cause: the queue tags live in a thread-local mempool that is only set up
 * by the first cmi_mempool_alloc() in a thread; cmi_mempool_free() in a thread
 * that has not allocated yet fails its release assert (cookie still
 * CMI_THREAD_STATIC).
 *
 * Build: see findings.md.  Exit status 0 = defect not present, 1 = defect shown.
 */
#include <stdio.h>
#include <stdint.h>
#include <stdlib.h>
#include <string.h>
#include <unistd.h>
#include <sys/wait.h>
#include "cimba.h"

#define NTRIALS 8
#define NOBJ 5

struct trial {
    uint64_t seed;
    struct cmb_objectqueue *q;   /* prepared by the main thread */
    int prime;                   /* use some objectqueue first in the trial */
    double result;
};

static void *consumer(struct cmb_process *me, void *ctx)
{
    cmb_unused(me);
    struct trial *t = ctx;
    double acc = 0.0;
    while (cmb_objectqueue_length(t->q) > 0u) {
        void *obj = NULL;
        (void)cmb_objectqueue_get(t->q, &obj);
        (void)cmb_process_hold(cmb_random_exponential(1.0));
        acc += (double)(intptr_t)obj * cmb_random();
    }
    t->result = acc + cmb_time();
    return NULL;
}

static void trialf(void *v)
{
    struct trial *t = v;
    cmb_logger_flags_off(CMB_LOGGER_INFO | CMB_LOGGER_WARNING);
    cmb_random_initialize(t->seed);
    cmb_event_queue_initialize(0.0);

    if (t->prime) {
        /* What an earlier trial on this worker thread might have done */
        struct cmb_objectqueue *scratch = cmb_objectqueue_create();
        cmb_objectqueue_initialize(scratch, "scratch", 4u);
        (void)cmb_objectqueue_put(scratch, NULL);
        cmb_objectqueue_destroy(scratch);
    }

    struct cmb_process *p = cmb_process_create();
    cmb_process_initialize(p, "consumer", consumer, t, 0);
    cmb_process_start(p);
    cmb_event_queue_execute();
    cmb_process_terminate(p);
    cmb_process_destroy(p);
    cmb_event_queue_terminate();
}

static void prepare(struct trial *arr, int prime)
{
    for (int i = 0; i < NTRIALS; i++) {
        arr[i].seed = 1000u + (uint64_t)i;
        arr[i].prime = prime;
        arr[i].result = 0.0;
        arr[i].q = cmb_objectqueue_create();
        cmb_objectqueue_initialize(arr[i].q, "work", 100u);
        for (intptr_t k = 1; k <= NOBJ; k++) {
            (void)cmb_objectqueue_put(arr[i].q, (void *)k);
        }
    }
}

/* mode 0: one after another in this thread; 1: experiment; 2: experiment, primed */
static int run_mode(int mode, double *out)
{
    int fd[2];
    if (pipe(fd) != 0) return -1;
    fflush(NULL);
    const pid_t pid = fork();
    if (pid == 0) {
        close(fd[0]);
        struct trial arr[NTRIALS];
        memset(arr, 0, sizeof arr);
        cmb_logger_flags_off(CMB_LOGGER_INFO | CMB_LOGGER_WARNING);
        prepare(arr, mode == 2);
        if (mode == 0) {
            for (int i = 0; i < NTRIALS; i++) trialf(&arr[i]);
        }
        else {
            cimba_run_experiment(arr, NTRIALS, sizeof arr[0], trialf);
        }
        double res[NTRIALS];
        for (int i = 0; i < NTRIALS; i++) res[i] = arr[i].result;
        (void)!write(fd[1], res, sizeof res);
        _exit(0);
    }
    close(fd[1]);
    const ssize_t got = read(fd[0], out, NTRIALS * sizeof(double));
    close(fd[0]);
    int status = 0;
    waitpid(pid, &status, 0);
    if (WIFSIGNALED(status)) return 1000 + WTERMSIG(status);
    if (got != (ssize_t)(NTRIALS * sizeof(double))) return -2;
    return WEXITSTATUS(status);
}

int main(void)
{
    double seq[NTRIALS], par[NTRIALS], primed[NTRIALS];
    memset(seq, 0, sizeof seq); memset(par, 0, sizeof par); memset(primed, 0, sizeof primed);

    const int r0 = run_mode(0, seq);
    printf("sequential, single thread      : status %d, result[0] = %.17g\n", r0, seq[0]);
    const int r1 = run_mode(1, par);
    printf("cimba_run_experiment           : status %d%s, result[0] = %.17g\n",
           r1, (r1 >= 1000) ? " (killed by signal, 1006 = SIGABRT)" : "", par[0]);
    const int r2 = run_mode(2, primed);
    printf("cimba_run_experiment, primed   : status %d, result[0] = %.17g\n", r2, primed[0]);

    printf("expected: all three runs complete, all results bit-identical\n");
    int defect = 0;
    if (r0 != 0) { printf("unexpected: sequential run failed\n"); defect = 1; }
    if (r1 != 0 || memcmp(seq, par, sizeof seq) != 0) {
        printf("got     : experiment %s (sequential run of the same trials is fine)\n",
               (r1 != 0) ? "did not complete" : "gave different results");
        defect = 1;
    }
    if (r2 == 0 && memcmp(seq, primed, sizeof seq) == 0 && r1 != 0) {
        printf("          and it does complete with identical results once an objectqueue has been\n"
               "          used earlier in the worker thread: outcome depends on thread history\n");
    }
    printf(defect ? "DEFECT SHOWN\n" : "no defect\n");
    return defect;
}
