/*
 * finding2.c - a restart that a process requests for itself (or that is
 * requested for it) before it ends is silently swept away when it ends.
 *
 * The process calls cmb_process_start() on itself and returns in the same
 * instant: when the start event would run the process has finished, so the
 * restart is possible, and cmb_process.h puts no condition on the state of the
 * process passed to cmb_process_start(). The end of the process
 * (cmb_process_exit -> cmi_process_cancel_awaiteds) cancels the start event,
 * because start_event is in the list of "wakeup calls" that the sweep cancels.
 *
 * Expected: the process function runs 3 times. Got: it runs once.
 */
#include <stdio.h>
#include "cimba.h"

static int runs = 0;

static void *again(struct cmb_process *me, void *ctx)
{
    (void)ctx;
    runs++;
    printf("[%g] run number %d\n", cmb_time(), runs);
    (void)cmb_process_hold(1.0);
    if (runs < 3) {
        cmb_process_start(me);      /* explicit restart, takes effect after the return */
    }

    return NULL;
}

int main(void)
{
    cmb_logger_flags_off(CMB_LOGGER_INFO | CMB_LOGGER_WARNING);
    cmb_event_queue_initialize(0.0);

    struct cmb_process *p = cmb_process_create();
    cmb_process_initialize(p, "again", again, NULL, 0);
    cmb_process_start(p);
    cmb_event_queue_execute();

    printf("expected 3 runs, got %d\n", runs);
    return (runs == 3) ? 0 : 1;
}
