/*
 * finding3.c - cmb_process_stop() on a process that has been started but has
 * not begun to execute yet (its start event is still pending in the same
 * instant) does nothing: the process starts afterwards and runs to its end,
 * its exit value is not the one it was stopped with, and a process waiting for
 * it is not resumed with CMB_PROCESS_STOPPED at the instant of the stop.
 *
 * Expected: worker never runs, exit value 0xdead, waiter gets STOPPED at t=0.
 * Got: worker runs, exit value 0x1, waiter gets SUCCESS at t=1.
 */
#include <inttypes.h>
#include <stdio.h>
#include "cimba.h"

static int ran = 0;
static struct cmb_process *worker_p;
static int64_t waiter_sig = 999;
static double waiter_time = -1.0;

static void *worker(struct cmb_process *me, void *ctx)
{
    (void)me; (void)ctx;
    ran++;
    (void)cmb_process_hold(1.0);
    return (void *)0x1;
}

static void *waiter(struct cmb_process *me, void *ctx)
{
    (void)me; (void)ctx;
    waiter_sig = cmb_process_wait_process(worker_p);
    waiter_time = cmb_time();
    return NULL;
}

static void *boss(struct cmb_process *me, void *ctx)
{
    (void)me; (void)ctx;
    cmb_process_start(worker_p);
    cmb_process_stop(worker_p, (void *)0xdead);     /* changes its mind in the same instant */
    return NULL;
}

int main(void)
{
    cmb_logger_flags_off(CMB_LOGGER_INFO | CMB_LOGGER_WARNING);
    cmb_event_queue_initialize(0.0);

    worker_p = cmb_process_create();
    cmb_process_initialize(worker_p, "worker", worker, NULL, 0);
    struct cmb_process *w = cmb_process_create();
    cmb_process_initialize(w, "waiter", waiter, NULL, 0);
    struct cmb_process *b = cmb_process_create();
    cmb_process_initialize(b, "boss", boss, NULL, 0);
    cmb_process_start(w);
    cmb_process_start(b);
    cmb_event_queue_execute();

    void *xv = (cmb_process_status(worker_p) == CMB_PROCESS_FINISHED) ? cmb_process_exit_value(worker_p) : NULL;
    printf("expected: worker runs 0 times, exit value 0xdead, waiter resumed with %" PRIi64 " at t=0\n", CMB_PROCESS_STOPPED);
    printf("got:      worker runs %d times, exit value %p, waiter resumed with %" PRIi64 " at t=%g\n",
           ran, xv, waiter_sig, waiter_time);
    return (ran == 0 && xv == (void *)0xdead && waiter_sig == CMB_PROCESS_STOPPED) ? 0 : 1;
}
