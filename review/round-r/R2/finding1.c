/*
 * finding1.c - C06: among waiters of equal priority, one that started waiting
 * LATER is served ahead of one that has been waiting LONGER.
 *
 * A pool of 3 units, all in use by three holders of one unit each. Two
 * processes of the same priority wait for one unit: W1 since t=0.1, W2 since
 * t=0.2. At t=1, in this order:
 *   holder A releases its unit            -> the guard selects W1, wakeup on its way
 *   holder B does a zero-length hold      (its wakeup is queued behind W1's)
 *   holder C releases its unit            -> W1 is no longer in the queue, the
 *                                            guard selects W2, wakeup on its way
 *   a newcomer acquires 2 units           -> takes both free units
 *   W1's wakeup runs: nothing is free, W1 waits again (it "keeps its place in
 *                                            the line", commits edadf16/170ea0a)
 *   holder B releases its unit            -> the guard selects W1 again, but its
 *                                            new wakeup is queued behind W2's
 *   W2's wakeup runs: one unit is free    -> W2 takes it
 *   W1's wakeup runs: nothing is free, W1 waits again, until W2 releases at t=11.
 *
 * Expected: W1 (waiting since 0.1) gets a unit before W2 (waiting since 0.2).
 * Got:      W2 gets its unit at t=1, W1 at t=11.
 *
 * Run with any argument to use the single resource (cmb_resource) variant of
 * the same defect instead of the pool.
 */
#include <inttypes.h>
#include <stdio.h>
#include "cimba.h"

static struct cmb_resourcepool *pool;
static struct cmb_resource *res;
static bool use_resource = false;
static int order[2], n = 0;
static double when[2];

static void *waiter(struct cmb_process *me, void *ctx)
{
    (void)me;
    const int id = (int)(intptr_t)ctx;
    (void)cmb_process_hold(0.1 * id);         /* W1 starts to wait at 0.1, W2 at 0.2 */
    const int64_t sig = use_resource ? cmb_resource_acquire(res)
                                     : cmb_resourcepool_acquire(pool, 1u);
    printf("[t=%g] W%d acquired (signal %" PRIi64 ")\n", cmb_time(), id, sig);
    order[n] = id;
    when[n++] = cmb_time();
    (void)cmb_process_hold(10.0);
    if (use_resource) {
        cmb_resource_release(res);
    }
    else {
        cmb_resourcepool_release(pool, 1u);
    }

    return NULL;
}

/* Pool variant: three holders and a newcomer */
static void *holder(struct cmb_process *me, void *ctx)
{
    (void)me;
    const bool zero_hold = (ctx != NULL);
    (void)cmb_resourcepool_acquire(pool, 1u);
    (void)cmb_process_hold(1.0);
    if (zero_hold) {
        (void)cmb_process_hold(0.0);
    }

    cmb_resourcepool_release(pool, 1u);
    return NULL;
}

static void *newcomer(struct cmb_process *me, void *ctx)
{
    (void)me; (void)ctx;
    (void)cmb_process_hold(0.5);
    (void)cmb_process_hold(0.5);              /* its wakeup at t=1 is queued after the holders' */
    (void)cmb_resourcepool_acquire(pool, 2u);
    (void)cmb_process_hold(100.0);
    return NULL;
}

/* Resource variant: one process releases and re-acquires within the instant */
static void *juggler(struct cmb_process *me, void *ctx)
{
    (void)ctx;
    (void)cmb_resource_acquire(res);
    (void)cmb_process_hold(1.0);
    cmb_resource_release(res);                /* W1 selected */
    (void)cmb_process_timer_add(me, 0.0, 7);  /* queued behind W1's wakeup */
    (void)cmb_resource_acquire(res);          /* free, taken at once */
    cmb_resource_release(res);                /* W2 selected */
    (void)cmb_resource_acquire(res);          /* free, taken at once */
    (void)cmb_process_yield();                /* W1 wakes, finds it taken, waits again; then the timer */
    cmb_resource_release(res);                /* W1 selected again, behind W2's wakeup */
    return NULL;
}

int main(int argc, char **argv)
{
    (void)argv;
    use_resource = (argc > 1);
    cmb_logger_flags_off(CMB_LOGGER_INFO | CMB_LOGGER_WARNING);
    cmb_event_queue_initialize(0.0);

    struct cmb_process *p;
    if (use_resource) {
        res = cmb_resource_create();
        cmb_resource_initialize(res, "res");
        p = cmb_process_create();
        cmb_process_initialize(p, "juggler", juggler, NULL, 0);
        cmb_process_start(p);
    }
    else {
        pool = cmb_resourcepool_create();
        cmb_resourcepool_initialize(pool, "pool", 3u);
        for (int i = 0; i < 3; i++) {
            p = cmb_process_create();
            cmb_process_initialize(p, "holder", holder, (i == 1) ? (void *)1 : NULL, 0);
            cmb_process_start(p);
        }
    }

    for (int i = 1; i <= 2; i++) {
        p = cmb_process_create();
        cmb_process_initialize(p, "waiter", waiter, (void *)(intptr_t)i, 0);
        cmb_process_start(p);
    }

    if (!use_resource) {
        p = cmb_process_create();
        cmb_process_initialize(p, "newcomer", newcomer, NULL, 0);
        cmb_process_start(p);
    }

    cmb_event_queue_execute();

    printf("expected: W1 (waiting since 0.1) served before W2 (waiting since 0.2), same priority\n");
    printf("got:      W%d served at t=%g, W%d served at t=%g\n", order[0], when[0], order[1], when[1]);
    return (order[0] == 1) ? 0 : 1;
}
