/*
 * docmismatch.c - two places where the code does something else than the header
 * says (documentation mismatches, not counted as violations of C01/C06/C09).
 *
 * 1. cmb_process.h: cmb_process_wait_process() returns "CMB_PROCESS_STOPPED if
 *    it was stopped by some other process". For a process that was stopped
 *    before the call it returns CMB_PROCESS_SUCCESS.
 * 2. cmb_resource.h: cmb_resource_preempt() preempts "if the calling process
 *    has higher priority than the current holder. Otherwise, it will politely
 *    wait for its turn". It also preempts a holder of equal priority
 *    (myprio >= victim->priority in src/cmb_resource.c).
 */
#include <inttypes.h>
#include <stdio.h>
#include "cimba.h"

static struct cmb_process *V;
static struct cmb_resource *R;
static int64_t victim_sig, late_sig;
static double pre_time;

static void *victim(struct cmb_process *me, void *ctx)
{
    (void)me; (void)ctx;
    (void)cmb_resource_acquire(R);
    victim_sig = cmb_process_hold(10.0);
    (void)cmb_process_hold(100.0);
    return NULL;
}

static void *pre(struct cmb_process *me, void *ctx)
{
    (void)me; (void)ctx;
    (void)cmb_process_hold(1.0);
    (void)cmb_resource_preempt(R);      /* same priority as the holder */
    pre_time = cmb_time();
    return NULL;
}

static void *killer(struct cmb_process *me, void *ctx)
{
    (void)me; (void)ctx;
    (void)cmb_process_hold(2.0);
    cmb_process_stop(V, NULL);
    return NULL;
}

static void *late(struct cmb_process *me, void *ctx)
{
    (void)me; (void)ctx;
    (void)cmb_process_hold(3.0);
    late_sig = cmb_process_wait_process(V);
    return NULL;
}

int main(void)
{
    cmb_logger_flags_off(CMB_LOGGER_INFO | CMB_LOGGER_WARNING);
    cmb_event_queue_initialize(0.0);
    R = cmb_resource_create();
    cmb_resource_initialize(R, "r");
    V = cmb_process_create();
    cmb_process_initialize(V, "v", victim, NULL, 0);
    cmb_process_start(V);
    struct cmb_process *p;
    p = cmb_process_create(); cmb_process_initialize(p, "pre", pre, NULL, 0); cmb_process_start(p);
    p = cmb_process_create(); cmb_process_initialize(p, "killer", killer, NULL, 0); cmb_process_start(p);
    p = cmb_process_create(); cmb_process_initialize(p, "late", late, NULL, 0); cmb_process_start(p);
    cmb_event_queue_execute();

    printf("1. wait_process on a process stopped earlier: header says %" PRIi64 " (STOPPED), got %" PRIi64 "\n",
           CMB_PROCESS_STOPPED, late_sig);
    printf("2. preempt by equal priority: header says it waits (holder keeps it until stopped at t=2), "
           "got the resource at t=%g, holder's hold returned %" PRIi64 "\n", pre_time, victim_sig);
    return (late_sig == CMB_PROCESS_STOPPED && pre_time >= 2.0) ? 0 : 1;
}
