/*
 * finding4.c - processes of equal priority that wait for the same process to
 * end, or for the same event, are resumed in the reverse of the order in which
 * they started waiting (last come, first served). The waiting lists of
 * resources, pools, buffers, queues and conditions were changed to first come,
 * first served (commit fced5d5); these two kinds of waiting list were not.
 *
 * Expected wake order 1 2 3 (order of arrival), got 3 2 1, for both.
 */
#include <inttypes.h>
#include <stdio.h>
#include "cimba.h"

static struct cmb_process *target_p;
static uint64_t bell;
static int order_p[3], np = 0;
static int order_e[3], ne = 0;

static void ring(void *s, void *o) { (void)s; (void)o; }

static void *target(struct cmb_process *me, void *ctx)
{
    (void)me; (void)ctx;
    (void)cmb_process_hold(5.0);
    return NULL;
}

static void *pwaiter(struct cmb_process *me, void *ctx)
{
    (void)me;
    const int id = (int)(intptr_t)ctx;
    (void)cmb_process_hold(0.1 * id);                 /* 1 starts waiting first, 3 last */
    (void)cmb_process_wait_process(target_p);
    order_p[np++] = id;
    return NULL;
}

static void *ewaiter(struct cmb_process *me, void *ctx)
{
    (void)me;
    const int id = (int)(intptr_t)ctx;
    (void)cmb_process_hold(0.1 * id);
    (void)cmb_process_wait_event(bell);
    order_e[ne++] = id;
    return NULL;
}

int main(void)
{
    cmb_logger_flags_off(CMB_LOGGER_INFO | CMB_LOGGER_WARNING);
    cmb_event_queue_initialize(0.0);

    target_p = cmb_process_create();
    cmb_process_initialize(target_p, "target", target, NULL, 0);
    cmb_process_start(target_p);
    bell = cmb_event_schedule(ring, NULL, NULL, 7.0, 0);
    for (int i = 1; i <= 3; i++) {
        struct cmb_process *w = cmb_process_create();
        cmb_process_initialize(w, "pw", pwaiter, (void *)(intptr_t)i, 0);
        cmb_process_start(w);
        w = cmb_process_create();
        cmb_process_initialize(w, "ew", ewaiter, (void *)(intptr_t)i, 0);
        cmb_process_start(w);
    }

    cmb_event_queue_execute();

    printf("waiting for a process: expected wake order 1 2 3, got %d %d %d\n", order_p[0], order_p[1], order_p[2]);
    printf("waiting for an event:  expected wake order 1 2 3, got %d %d %d\n", order_e[0], order_e[1], order_e[2]);
    const int ok = (order_p[0] == 1 && order_p[1] == 2 && order_p[2] == 3
                 && order_e[0] == 1 && order_e[1] == 2 && order_e[2] == 3);
    return ok ? 0 : 1;
}
