#include <stdio.h>
#include "cimba.h"
static struct cmb_process *V,*A,*Q;
static int qran=0;
static void *v(struct cmb_process *me, void *c){ int64_t s=cmb_process_hold(10); printf("V: hold -> %ld at %g\n",(long)s,cmb_time()); s=cmb_process_hold(10); printf("V: hold2 -> %ld at %g\n",(long)s,cmb_time()); return NULL; }
static void *a(struct cmb_process *me, void *c){ cmb_process_hold(5); cmb_process_interrupt(V, 71, 0); cmb_process_interrupt(V, 72, 0);
  cmb_process_start(Q); cmb_process_stop(Q,(void*)9); return NULL; }
static void *q(struct cmb_process *me, void *c){ qran=1; printf("Q runs at %g although stopped after start\n",cmb_time()); return NULL; }
int main(void){ cmb_logger_flags_off(CMB_LOGGER_INFO|CMB_LOGGER_WARNING); cmb_event_queue_initialize(0);
 V=cmb_process_create(); cmb_process_initialize(V,"V",v,NULL,0);
 A=cmb_process_create(); cmb_process_initialize(A,"A",a,NULL,0);
 Q=cmb_process_create(); cmb_process_initialize(Q,"Q",q,NULL,0);
 cmb_process_start(V); cmb_process_start(A); cmb_event_queue_execute(); return 0;}
