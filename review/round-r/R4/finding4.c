/*
 * finding4.c - C10: cmb_resource_terminate() / cmb_resource_destroy() of a
 * resource that still has a holder makes the resource drop the holder, but the
 * holder process keeps its own record of holding it. When that process is
 * stopped (or ends) afterwards, cmi_process_drop_resources() calls the drop
 * method of the dead resource: release-assert abort after _terminate, heap
 * use-after-free after _destroy.
 *
 * Scenario: the run is ended with cmb_event_queue_clear() while a process still
 * holds the resource (the normal state of affairs at the end of a run). The
 * clean-up code disposes of the resource first and of the process second; no
 * header prescribes an order.
 *
 * Expected: clean-up completes; cmb_resource_terminate() explicitly handles
 *           "holder != NULL", so afterwards nobody holds the resource.
 * Got:      the process still lists the resource as held; cmb_process_stop()
 *           aborts: Assert "cookie == CMI_INITIALIZED" failed in
 *           resource_drop_holder  (argument "destroy": use-after-free instead,
 *           visible under ASan in cmi_process_drop_resources, cmb_process.c:662).
 */
#include <signal.h>
#include <stdio.h>
#include <stdlib.h>
#include <unistd.h>
#include "cimba.h"

static struct cmb_resource *R;

static void on_abort(int sig)
{
    (void)sig;
    static const char msg[] = "GOT: the library aborted/crashed in cmb_process_stop() of the former holder -> DEFECT\n";
    (void)!write(1, msg, sizeof msg - 1);
    _exit(1);
}

static void *holder(struct cmb_process *me, void *ctx)
{
    (void)me; (void)ctx;
    cmb_resource_acquire(R);
    cmb_process_hold(100.0);
    cmb_resource_release(R);
    return NULL;
}

static void end_sim(void *s, void *o) { (void)s; (void)o; cmb_event_queue_clear(); }

int main(int argc, char **argv)
{
    (void)argv;
    signal(SIGABRT, on_abort);
    signal(SIGSEGV, on_abort);
    cmb_logger_flags_off(CMB_LOGGER_INFO | CMB_LOGGER_WARNING);
    cmb_event_queue_initialize(0.0);

    R = cmb_resource_create();
    cmb_resource_initialize(R, "R");
    struct cmb_process *h = cmb_process_create();
    cmb_process_initialize(h, "holder", holder, NULL, 0);
    cmb_process_start(h);
    cmb_event_schedule(end_sim, NULL, NULL, 10.0, 0);
    cmb_event_queue_execute();

    printf("t=%g run ended, resource in use: %lu\n", cmb_time(),
           (unsigned long)cmb_resource_in_use(R));
    if (argc == 1) {
        cmb_resource_terminate(R);
    }
    else {
        cmb_resource_destroy(R);
    }

    printf("expected: resource disposed of, the process holds nothing any more\n");
    printf("got:      the process %s a held-resource record for it\n",
           (h->resources.next != NULL) ? "still has" : "has no");
    fflush(stdout);

    cmb_process_stop(h, NULL);
    cmb_process_terminate(h);
    cmb_process_destroy(h);
    cmb_event_queue_terminate();
    printf("clean-up completed, no defect seen\n");
    return 0;
}
