/*
 * finding6.c - OUTSIDE the release-configuration scope of C10 (observation):
 * cmb_timeseries_fivenum_print() reports a first quartile / median / third
 * quartile of 0.000 whenever the smallest sample value already carries more
 * than that share of the total duration (the interpolation loop only looks for
 * a crossing between two cumulated weights, never below the first one).
 * In a build without NDEBUG the function's own closing assert
 * "(xmin <= x025) && ..." then aborts the program; in the shipped NDEBUG build
 * it prints a quartile below the minimum. cmb_timeseries_median() has the same
 * loop and returns 0.0 in the corresponding case.
 *
 * Series: value 1 during [0,10), 2 during [10,11), 1 during [11,20).
 * Expected: Min 1  First 1  Median 1  Third 1  Max 2
 * Got (NDEBUG): First 0.000;  (debug build): assert abort.
 */
#include <signal.h>
#include <stdio.h>
#include <stdlib.h>
#include <string.h>
#include <unistd.h>
#include "cimba.h"

static void on_abort(int sig)
{
    (void)sig;
    static const char msg[] = "GOT: library abort inside cmb_timeseries_fivenum_print() -> DEFECT (debug build)\n";
    (void)!write(1, msg, sizeof msg - 1);
    _exit(1);
}

int main(void)
{
    signal(SIGABRT, on_abort);
    cmb_logger_flags_off(CMB_LOGGER_INFO | CMB_LOGGER_WARNING);
    struct cmb_timeseries *t = cmb_timeseries_create();
    cmb_timeseries_add(t, 1.0, 0.0);
    cmb_timeseries_add(t, 2.0, 10.0);
    cmb_timeseries_add(t, 1.0, 11.0);
    cmb_timeseries_finalize(t, 20.0);

    printf("expected: Min    1.000  First    1.000  Median    1.000  Third    1.000  Max    2.000\n");
    printf("got:      ");
    fflush(stdout);
    char buf[256] = { 0 };
    FILE *mem = fmemopen(buf, sizeof buf - 1, "w");
    cmb_timeseries_fivenum_print(t, mem, true);
    fclose(mem);
    printf("%s", buf);
    double q1 = -1.0;
    const char *p = strstr(buf, "First");
    if (p != NULL) q1 = atof(p + 5);
    cmb_timeseries_destroy(t);
    if (q1 < 1.0) {
        printf("first quartile %g is below the minimum 1 -> DEFECT\n", q1);
        return 1;
    }
    printf("no defect seen\n");
    return 0;
}
