/*
 * finding2.c - C10: cmb_dataset_histogram_print() with num_bins = UINT_MAX or
 * UINT_MAX - 1 writes far outside its bin array.
 *
 * num_bins is an unsigned (no upper limit in the header); the two overflow
 * bins are added with "num_bins + 2u" in cmi_dataset_histogram_create(), which
 * wraps to 1 resp. 0, so that one resp. zero bins are allocated while the fill
 * loop computes bin indices up to 2^32 (commit a3f6ab2 widened the index to an
 * unsigned but left the bin count computation as it was).
 *
 * Expected: a histogram (or a refusal); no memory error.
 * Got:      heap-buffer-overflow under ASan, SIGSEGV in the release build.
 */
#include <limits.h>
#include <signal.h>
#include <stdio.h>
#include <stdlib.h>
#include <unistd.h>
#include "cimba.h"

static void on_segv(int sig)
{
    (void)sig;
    static const char msg[] = "GOT: SIGSEGV inside cmb_dataset_histogram_print() -> DEFECT\n";
    (void)!write(1, msg, sizeof msg - 1);
    _exit(1);
}

int main(int argc, char **argv)
{
    (void)argv;
    signal(SIGSEGV, on_segv);
    cmb_logger_flags_off(CMB_LOGGER_INFO | CMB_LOGGER_WARNING);
    FILE *fp = fopen("/dev/null", "w");

    struct cmb_dataset *d = cmb_dataset_create();
    cmb_dataset_add(d, 0.0);
    cmb_dataset_add(d, 5.0e9);
    cmb_dataset_add(d, 1.0e10);

    const unsigned nb = (argc == 1) ? UINT_MAX : UINT_MAX - 1u;
    printf("histogram of 3 samples in [0, 1e10] with %u bins\n", nb);
    printf("expected: no memory error (bins needed: %llu, allocated: %u)\n",
           (unsigned long long)nb + 2ull, nb + 2u);
    fflush(stdout);
    cmb_dataset_histogram_print(d, fp, nb, 0.0, 1.0e10);
    printf("got: returned normally, no defect seen\n");
    cmb_dataset_destroy(d);
    return 0;
}
