/*
 * finding3.c - C10: a condition that has been terminated / destroyed stays
 * registered as an observer of the resource guards it subscribed to. The next
 * signal on such a guard (here: an ordinary cmb_resource_release) is forwarded
 * to the freed condition: heap-use-after-free in signal_observer().
 *
 * Neither cmb_condition_terminate() nor cmb_condition_destroy() (nor their
 * headers) ask for a cmb_condition_unsubscribe() first, and the tutorials
 * (tut_4_1.c, tut_4_2.c) destroy their subscribed conditions without one.
 *
 * Expected: after cmb_condition_destroy() the resource guard no longer refers
 *           to the condition; releasing the resource touches only live memory.
 * Got:      the guard's observer list still points to the freed condition, and
 *           cmb_resource_release() reads it (ASan: heap-use-after-free in
 *           signal_observer, cmb_resourceguard.c:316). In this build the freed
 *           block is refilled with a poison pattern first, to make the
 *           consequence visible without ASan as well.
 */
#include <signal.h>
#include <stdio.h>
#include <stdlib.h>
#include <string.h>
#include <unistd.h>
#include "cimba.h"

static struct cmb_resource *R;
static struct cmb_condition *C;
static int dangling;

static void on_crash(int sig)
{
    (void)sig;
    static const char msg[] = "GOT: crash while the resource guard forwarded its signal to the destroyed condition -> DEFECT\n";
    (void)!write(1, msg, sizeof msg - 1);
    _exit(1);
}

static bool available(const struct cmb_condition *c, const struct cmb_process *p, const void *x)
{
    (void)c; (void)p; (void)x;
    return cmb_resource_available(R) > 0u;
}

static void *holder(struct cmb_process *me, void *ctx)
{
    (void)me; (void)ctx;
    cmb_resource_acquire(R);
    cmb_process_hold(100.0);
    printf("t=%g holder releases the resource\n", cmb_time());
    fflush(stdout);
    cmb_resource_release(R);
    return NULL;
}

static void *waiter(struct cmb_process *me, void *ctx)
{
    (void)me; (void)ctx;
    (void)cmb_condition_wait(C, available, NULL);
    return NULL;
}

static void stop_waiter(void *s, void *o) { (void)o; cmb_process_stop(s, NULL); }

static void drop_condition(void *s, void *o)
{
    (void)s; (void)o;
    /* Nobody waits for it any more, the model is done with it */
    cmb_condition_destroy(C);
    printf("t=%g condition destroyed\n", cmb_time());
    printf("expected: resource guard has no observers left\n");
    dangling = (R->guard.observers.next != NULL);
    printf("got:      resource guard %s an observer entry%s\n",
           dangling ? "still has" : "has no",
           dangling ? " (pointing into freed memory)" : "");
    fflush(stdout);

    /* Let the allocator hand the freed block to somebody else */
    for (int i = 0; i < 4; i++) {
        void *g = malloc(sizeof(struct cmb_condition));
        memset(g, 0x5A, sizeof(struct cmb_condition));
    }
}

int main(void)
{
    signal(SIGSEGV, on_crash);
    signal(SIGABRT, on_crash);
    signal(SIGBUS, on_crash);
    cmb_logger_flags_off(CMB_LOGGER_INFO | CMB_LOGGER_WARNING);
    cmb_event_queue_initialize(0.0);

    R = cmb_resource_create();
    cmb_resource_initialize(R, "R");
    C = cmb_condition_create();
    cmb_condition_initialize(C, "C");
    cmb_condition_subscribe(C, &(R->guard));

    struct cmb_process *h = cmb_process_create();
    cmb_process_initialize(h, "holder", holder, NULL, 0);
    cmb_process_start(h);
    struct cmb_process *w = cmb_process_create();
    cmb_process_initialize(w, "waiter", waiter, NULL, 0);
    cmb_process_start(w);

    cmb_event_schedule(stop_waiter, w, NULL, 10.0, 0);
    cmb_event_schedule(drop_condition, NULL, NULL, 20.0, 0);
    cmb_event_queue_execute();

    printf("t=%g run completed\n", cmb_time());
    return dangling ? 1 : 0;
}
