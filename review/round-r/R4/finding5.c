/*
 * finding5.c - C10 (minor): cmb_dataset_correlogram_print() checks its lag
 * count with "n <= count", then (acf == NULL) calls cmb_dataset_ACF(), whose
 * own release assert demands "n < count": a call that the function's own
 * precondition check accepts ends in a library abort. The header sets no limit
 * on n at all. (cmb_timeseries_correlogram_print() is the same call.)
 *
 * Expected: a correlogram with the lags that can be computed, or the same
 *           limit in both places.
 * Got:      Assert "(n > 0u) && (n < dsp->count)" failed in cmb_dataset_ACF.
 */
#include <signal.h>
#include <stdio.h>
#include <unistd.h>
#include "cimba.h"

static void on_abort(int sig)
{
    (void)sig;
    static const char msg[] = "GOT: library abort inside cmb_dataset_correlogram_print() -> DEFECT\n";
    (void)!write(1, msg, sizeof msg - 1);
    _exit(1);
}

int main(void)
{
    signal(SIGABRT, on_abort);
    cmb_logger_flags_off(CMB_LOGGER_INFO | CMB_LOGGER_WARNING);
    struct cmb_dataset *d = cmb_dataset_create();
    const double x[] = { 1.0, 4.0, 2.0, 8.0, 5.0, 7.0 };
    for (unsigned i = 0; i < 6u; i++) cmb_dataset_add(d, x[i]);

    FILE *nul = fopen("/dev/null", "w");
    cmb_dataset_correlogram_print(d, nul, 5u, NULL);
    printf("correlogram of 6 samples with n = 5 lags: printed\n");
    printf("expected: the same for n = 6 (accepted by the check n <= count), or a consistent refusal\n");
    fflush(stdout);
    cmb_dataset_correlogram_print(d, nul, 6u, NULL);
    printf("got: returned normally, no defect seen\n");
    cmb_dataset_destroy(d);
    return 0;
}
