/*
 * finding7.c - C10 (boundary value): cmb_dataset_PACF() / cmb_timeseries_PACF()
 * with n = 65535 lags (the largest value of the uint16_t parameter of the
 * time series wrapper) sizes its work matrix with "(n + 1) * (n + 1)" in
 * unsigned arithmetic: 65536 * 65536 wraps to 0, calloc(0, 8) is handed out,
 * and the first store phi[1][1] lands 512 KiB outside it. Every n >= 65535 of
 * the unsigned parameter of cmb_dataset_PACF() wraps likewise; in addition
 * cmi_calloc() takes its element count as an unsigned, so a count computed
 * in 64 bits would be truncated again on the way in.
 *
 * Expected: the coefficients, or a clean refusal (the honest matrix would
 *           need 32 GiB); no wild write.
 * Got:      SIGSEGV / wild write in cmb_dataset_PACF (cmb_dataset.c:677).
 */
#include <signal.h>
#include <stdio.h>
#include <stdlib.h>
#include <unistd.h>
#include "cimba.h"

static void on_segv(int sig)
{
    (void)sig;
    static const char msg[] = "GOT: SIGSEGV inside cmb_timeseries_PACF() -> DEFECT\n";
    (void)!write(1, msg, sizeof msg - 1);
    _exit(1);
}

int main(void)
{
    signal(SIGSEGV, on_segv);
    cmb_logger_flags_off(CMB_LOGGER_INFO | CMB_LOGGER_WARNING);

    struct cmb_timeseries *t = cmb_timeseries_create();
    for (int i = 0; i < 65538; i++) {
        cmb_timeseries_add(t, (double)(i % 17), (double)i);
    }

    /* ACFs "already calculated" (any values do), to get to the point quickly */
    const uint16_t n = 65535u;
    double *acf = calloc((size_t)n + 1u, sizeof *acf);
    double *pacf = calloc((size_t)n + 1u, sizeof *pacf);
    acf[0] = 1.0;
    acf[1] = 0.5;

    printf("PACF with n = %u lags of a series of %lu samples\n", n,
           (unsigned long)cmb_timeseries_count(t));
    printf("expected: no memory error (matrix elements needed: %llu, requested: %u)\n",
           ((unsigned long long)n + 1ull) * ((unsigned long long)n + 1ull),
           ((unsigned)n + 1u) * ((unsigned)n + 1u));
    fflush(stdout);
    cmb_timeseries_PACF(t, n, pacf, acf);
    printf("got: returned normally, no defect seen\n");
    return 0;
}
