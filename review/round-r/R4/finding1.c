/*
 * finding1.c - C10: cmb_process_priority_set() aborts the program when a timer
 * or hold wakeup that the process is registered for is no longer in the event
 * queue (cancelled with cmb_event_cancel(), or flushed by cmb_event_queue_clear()).
 *
 * Variant 1 (default): a process sets itself a timeout with cmb_process_timer_add(),
 *   which returns "the handle of the scheduled timeout event"; it later removes
 *   that event with the public cmb_event_cancel(handle) and then changes its
 *   own priority.
 * Variant 2 (any argument): an event calls cmb_event_queue_clear() (the
 *   documented way to end the run) while a process is in cmb_process_hold();
 *   the main program then changes the priority of that process.
 *
 * Expected: the priority is changed, the program carries on.
 * Got:      Assert "cmi_hashheap_is_enqueued(event_queue, handle)" resp.
 *           "cmi_hashheap_count(event_queue) > 0u" failed in cmb_event_reprioritize.
 */
#include <signal.h>
#include <stdio.h>
#include <unistd.h>
#include "cimba.h"

static void on_abort(int sig)
{
    (void)sig;
    static const char msg[] = "GOT: the library aborted inside cmb_process_priority_set() -> DEFECT\n";
    (void)!write(1, msg, sizeof msg - 1);
    _exit(1);
}

static void *proc1(struct cmb_process *me, void *ctx)
{
    (void)ctx;
    const uint64_t h = cmb_process_timer_add(me, 10.0, CMB_PROCESS_TIMEOUT);
    cmb_process_hold(1.0);
    const bool ok = cmb_event_cancel(h);             /* public API, handle is ours */
    printf("t=%g timeout event cancelled: %d\n", cmb_time(), ok);
    printf("expected: priority changes to 3 and the process continues\n");
    fflush(stdout);
    cmb_process_priority_set(me, 3);
    printf("got: priority %ld, process continues\n", (long)cmb_process_priority(me));
    cmb_process_hold(1.0);
    return NULL;
}

static void *proc2(struct cmb_process *me, void *ctx)
{
    (void)me; (void)ctx;
    cmb_process_hold(10.0);
    return NULL;
}

static void end_sim(void *s, void *o) { (void)s; (void)o; cmb_event_queue_clear(); }

int main(int argc, char **argv)
{
    (void)argv;
    signal(SIGABRT, on_abort);
    cmb_logger_flags_off(CMB_LOGGER_INFO | CMB_LOGGER_WARNING);
    cmb_event_queue_initialize(0.0);

    struct cmb_process *p = cmb_process_create();
    if (argc == 1) {
        cmb_process_initialize(p, "P", proc1, NULL, 0);
        cmb_process_start(p);
        cmb_event_queue_execute();
    }
    else {
        cmb_process_initialize(p, "P", proc2, NULL, 0);
        cmb_process_start(p);
        cmb_event_schedule(end_sim, NULL, NULL, 5.0, 0);
        cmb_event_queue_execute();
        printf("t=%g event queue cleared, %lu events left, P still suspended in its hold\n",
               cmb_time(), (unsigned long)cmb_event_queue_count());
        printf("expected: priority changes to 3\n");
        fflush(stdout);
        cmb_process_priority_set(p, 3);
        printf("got: priority %ld\n", (long)cmb_process_priority(p));
        cmb_process_stop(p, NULL);
    }

    cmb_process_terminate(p);
    cmb_process_destroy(p);
    cmb_event_queue_terminate();
    printf("no defect seen\n");
    return 0;
}
