/*
 * finding2_model.c - supplementary to finding2.c/finding3.c: an ordinary mixed
 * model (8 workers using a resource, a pool, a buffer, an object queue, a
 * priority queue, a condition, timers, interrupts, stop/restart, priority
 * changes; all times integer so that things coincide) gives different results
 * as an experiment than serially, without any crafted heap history. With the
 * waiting-list / holder tie-breaks changed from the process address to an
 * entry sequence number (tried on a scratch copy of the sources) the serial and
 * the experiment results are bit-identical.
 */
#include <stdio.h>
#include <stdlib.h>
#include <string.h>
#include "cimba.h"
#include "cmb_priorityqueue.h"
#define NW 8
#define SIG_T 101
#define SIG_I 102
struct world { struct cmb_process *w[NW]; struct cmb_process *chaos; struct cmb_resource *R; struct cmb_resourcepool *P; struct cmb_buffer *B;
  struct cmb_objectqueue *Q; struct cmb_priorityqueue *PQ; struct cmb_condition *C; int flag; uint64_t ops; uint64_t sigsum; double tsum; int objs[16]; };
static bool dem(const struct cmb_condition *c, const struct cmb_process *p, const void *ctx){ (void)c;(void)p; return ((const struct world*)ctx)->flag!=0; }
static void dummy_evt(void *a, void *b){ (void)a;(void)b; }
static void *worker(struct cmb_process *me, void *v){ struct world *W=v;
  for(;;){ int64_t r=0; W->ops++;
    int a=(int)cmb_random_dice(0,11);
    if (a!=0 && (cmb_random_flip()||cmb_random_flip()||cmb_random_flip())) cmb_process_timer_add(me,(double)cmb_random_dice(0,3),SIG_T);
    switch(a){
    case 0: r=cmb_process_hold((double)cmb_random_dice(0,2)); break;
    case 1: r=cmb_resource_acquire(W->R); if(r==0) r=cmb_process_hold((double)cmb_random_dice(0,2)); if(cmb_resource_held_by_process(W->R,me)) cmb_resource_release(W->R); break;
    case 2: r=cmb_resource_preempt(W->R); if(r==0) r=cmb_process_hold((double)cmb_random_dice(0,2)); if(cmb_resource_held_by_process(W->R,me)) cmb_resource_release(W->R); break;
    case 3: case 4: { uint64_t am=(uint64_t)cmb_random_dice(1,3); r=(a==3)?cmb_resourcepool_acquire(W->P,am):cmb_resourcepool_preempt(W->P,am); if(r==0) r=cmb_process_hold((double)cmb_random_dice(0,2));
              uint64_t h=cmb_resourcepool_held_by_process(W->P,me); if(h>0){ if(h>1&&cmb_random_flip()){cmb_resourcepool_release(W->P,1);h--;} cmb_resourcepool_release(W->P,h);} } break;
    case 5: { uint64_t am=(uint64_t)cmb_random_dice(1,5); r=cmb_buffer_put(W->B,&am); } break;
    case 6: { uint64_t am=(uint64_t)cmb_random_dice(1,5); r=cmb_buffer_get(W->B,&am); } break;
    case 7: r=cmb_objectqueue_put(W->Q,&W->objs[cmb_random_dice(0,15)]); break;
    case 8: { void *o=NULL; r=cmb_objectqueue_get(W->Q,&o); } break;
    case 9: if(cmb_random_flip()) r=cmb_priorityqueue_put(W->PQ,&W->objs[cmb_random_dice(0,15)],cmb_random_dice(-2,2),NULL); else { void *o=NULL; r=cmb_priorityqueue_get(W->PQ,&o);} break;
    case 10: r=cmb_condition_wait(W->C,dem,W); break;
    case 11: if(cmb_random_flip()){ uint64_t h=cmb_event_schedule(dummy_evt,NULL,NULL,cmb_time()+(double)cmb_random_dice(0,2),cmb_random_dice(-1,1)); r=cmb_process_wait_event(h); if(r!=0 && cmb_random_flip()) cmb_event_cancel(h);} 
             else { struct cmb_process *o=W->w[cmb_random_dice(0,NW-1)]; if(o!=me) r=cmb_process_wait_process(o);} break;
    }
    cmb_process_timers_clear(me);
    W->sigsum += (uint64_t)r*31u + (uint64_t)a; W->tsum += cmb_time();
  }
  return NULL; }
static void *chaos(struct cmb_process *me, void *v){ (void)me; struct world *W=v;
  for(;;){ cmb_process_hold((double)cmb_random_dice(0,1));
    struct cmb_process *t=W->w[cmb_random_dice(0,NW-1)];
    switch(cmb_random_dice(0,6)){
     case 0: case 1: if(cmb_process_status(t)==CMB_PROCESS_RUNNING) cmb_process_interrupt(t,SIG_I,cmb_random_dice(-1,1)); break;
     case 2: if(cmb_process_status(t)==CMB_PROCESS_RUNNING){ cmb_process_stop(t,NULL); cmb_process_start(t);} break;
     case 3: cmb_process_priority_set(t,cmb_random_dice(-2,2)); break;
     case 4: W->flag=!W->flag; cmb_condition_signal(W->C); break;
     case 5: cmb_condition_signal(W->C); break;
     case 6: { uint64_t am=(uint64_t)cmb_random_dice(1,4); cmb_process_timer_add(me,1.0,SIG_T); if(cmb_random_flip()) cmb_buffer_put(W->B,&am); else cmb_buffer_get(W->B,&am); cmb_process_timers_clear(me);} break;
    } }
  return NULL; }
static void end_evt(void *s, void *o){ (void)o; struct world *W=s; for(int i=0;i<NW;i++) if(cmb_process_status(W->w[i])==CMB_PROCESS_RUNNING) cmb_process_stop(W->w[i],NULL); cmb_process_stop(W->chaos,NULL); cmb_event_queue_clear(); }
struct trial { uint64_t seed; double T; uint64_t ops, sigsum; double tsum; };
static void tf(void *vp){ struct trial *t=vp; struct world Wd; struct world *W=&Wd; memset(W,0,sizeof *W);
  cmb_logger_flags_off(CMB_LOGGER_INFO|CMB_LOGGER_WARNING);
  cmb_random_initialize(t->seed); cmb_event_queue_initialize(0.0);
  W->R=cmb_resource_create(); cmb_resource_initialize(W->R,"R");
  W->P=cmb_resourcepool_create(); cmb_resourcepool_initialize(W->P,"P",4);
  W->B=cmb_buffer_create(); cmb_buffer_initialize(W->B,"B",8);
  W->Q=cmb_objectqueue_create(); cmb_objectqueue_initialize(W->Q,"Q",3);
  W->PQ=cmb_priorityqueue_create(); cmb_priorityqueue_initialize(W->PQ,"PQ",3);
  W->C=cmb_condition_create(); cmb_condition_initialize(W->C,"C");
  for(int i=0;i<NW;i++){ char nm[16]; snprintf(nm,16,"W%d",i); W->w[i]=cmb_process_create(); cmb_process_initialize(W->w[i],nm,worker,W,i-4); cmb_process_start(W->w[i]); }
  W->chaos=cmb_process_create(); cmb_process_initialize(W->chaos,"chaos",chaos,W,10); cmb_process_start(W->chaos);
  cmb_event_schedule(end_evt,W,NULL,t->T,100);
  cmb_event_queue_execute();
  t->ops=W->ops; t->sigsum=W->sigsum; t->tsum=W->tsum;
  for(int i=0;i<NW;i++){ cmb_process_terminate(W->w[i]); cmb_process_destroy(W->w[i]); }
  cmb_process_terminate(W->chaos); cmb_process_destroy(W->chaos);
  cmb_condition_terminate(W->C); cmb_condition_destroy(W->C);
  cmb_priorityqueue_terminate(W->PQ); cmb_priorityqueue_destroy(W->PQ);
  cmb_objectqueue_terminate(W->Q); cmb_objectqueue_destroy(W->Q);
  cmb_buffer_terminate(W->B); cmb_buffer_destroy(W->B);
  cmb_resourcepool_terminate(W->P); cmb_resourcepool_destroy(W->P);
  cmb_resource_terminate(W->R); cmb_resource_destroy(W->R);
  cmb_event_queue_terminate();
}
int main(int argc,char**argv){ int n=argc>1?atoi(argv[1]):32; double T=argc>2?atof(argv[2]):2000;
  /* the same trials (seeded from their own parameters) serially in this thread, then as an experiment */
  struct trial *s=calloc(n,sizeof*s), *e=calloc(n,sizeof*e); for(int i=0;i<n;i++){s[i].seed=e[i].seed=1000+i;s[i].T=e[i].T=T;}
  for(int i=0;i<n;i++) tf(&s[i]);
  cimba_run_experiment(e,n,sizeof*e,tf);
  int diff=0; for(int i=0;i<n;i++) if(s[i].ops!=e[i].ops||s[i].sigsum!=e[i].sigsum||memcmp(&s[i].tsum,&e[i].tsum,8)){ if(!diff) printf("trial %d: serial ops %lu checksum %lu  experiment ops %lu checksum %lu\n",i,(unsigned long)s[i].ops,(unsigned long)s[i].sigsum,(unsigned long)e[i].ops,(unsigned long)e[i].sigsum); diff++; }
  printf("%d of %d trials give another result in the experiment than in the serial run (expected 0)\n",diff,n);
  if(diff) printf("DEFECT: results are not schedule independent\n"); else printf("ok\n");
  return diff!=0; }
