/*
 * finding4.c - C19 (lower severity, possibly intended but undocumented):
 * a trial that is fine when run on its own in a single thread kills the whole
 * program with SIGFPE when run through cimba_run_experiment(), because
 * cimba_run_experiment() unmasks the SSE invalid-operation and divide-by-zero
 * exceptions (_mm_setcsr(0x1d00)) in the calling thread, the workers inherit
 * that, and it is never restored - also not in the caller after the return.
 *
 * Trial: an event handler computes a ratio that is 0/0 for this trial's
 * parameters (no arrivals in the observation window) and stores it; IEEE 754 /
 * C Annex F define the result (NaN), the trial struct documents "NaN = no data".
 */
#define _DEFAULT_SOURCE
#include <math.h>
#include <signal.h>
#include <stdio.h>
#include <stdlib.h>
#include <string.h>
#include <sys/wait.h>
#include <unistd.h>
#include "cimba.h"

struct trial { uint64_t seed; double window; double sum; double cnt; double mean_wait; };

static void end_evt(void *subject, void *object)
{
    (void)object;
    struct trial *t = subject;
    t->mean_wait = t->sum / t->cnt;      /* NaN when nothing arrived */
}

static void trial_func(void *vp)
{
    struct trial *t = vp;
    cmb_logger_flags_off(CMB_LOGGER_INFO | CMB_LOGGER_WARNING);
    cmb_random_initialize(t->seed);
    cmb_event_queue_initialize(0.0);
    t->sum = 0.0; t->cnt = 0.0;
    cmb_event_schedule(end_evt, t, NULL, t->window, 0);
    cmb_event_queue_execute();
    cmb_event_queue_terminate();
}

int main(void)
{
    struct trial serial = { .seed = 7, .window = 1.0 };
    trial_func(&serial);
    printf("serial, single thread : mean_wait = %g (trial completed)\n", serial.mean_wait);

    fflush(stdout);
    const pid_t pid = fork();
    if (pid == 0) {
        struct trial e[4] = { { .seed = 7, .window = 1.0 }, { .seed = 8, .window = 1.0 },
                              { .seed = 9, .window = 1.0 }, { .seed = 10, .window = 1.0 } };
        cimba_run_experiment(e, 4, sizeof e[0], trial_func);
        int same = 1;
        for (int i = 0; i < 4; i++) same &= isnan(e[i].mean_wait) != 0;
        _exit(same ? 0 : 2);
    }
    int st = 0;
    waitpid(pid, &st, 0);
    if (WIFSIGNALED(st)) {
        printf("cimba_run_experiment  : process killed by signal %d (%s)\n", WTERMSIG(st), strsignal(WTERMSIG(st)));
        printf("expected: the same trials give the same results (NaN) as in the serial run\n");
        printf("DEFECT: trial outcome differs between serial execution and the experiment\n");
        return 1;
    }
    printf("cimba_run_experiment  : completed, exit code %d\n", WEXITSTATUS(st));
    return WEXITSTATUS(st);
}
