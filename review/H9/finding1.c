/*
 * finding1.c - C19: trials are silently skipped once as many trials as there
 * are cores have bailed out with cmb_logger_error().
 *
 * cmb_logger_error() is the documented way for "a single trial [that] for some
 * reason is unsuccessful [to] bail out without providing a result"
 * (docs/background.rst, cmb_logger.h: "terminates the current replication
 * thread only"). It calls pthread_exit(), which ends the WORKER THREAD, not the
 * trial: the worker never returns to the loop in worker_thread_func() to pull
 * its next trial. Every failing trial costs one worker; when the last worker
 * is gone, cimba_run_experiment() returns although trials were never started.
 *
 * Scenario: 4*cores trials. In the first half, every second trial bails out
 * (that is `cores` failing trials in all). All trials in the second half are
 * perfectly healthy and must be run exactly once.
 */
#include <stdio.h>
#include <stdlib.h>
#include <unistd.h>
#include "cimba.h"

struct trial { int fail; int calls; };

static void trial_func(void *vp)
{
    struct trial *t = vp;
    __atomic_fetch_add(&t->calls, 1, __ATOMIC_SEQ_CST);
    if (t->fail) {
        cmb_logger_error(stderr, "this trial bails out");
    }
}

int main(void)
{
    const long nc = sysconf(_SC_NPROCESSORS_ONLN);
    const unsigned n = 4u * (unsigned)nc;
    struct trial *a = calloc(n, sizeof *a);
    for (unsigned i = 0; i < n; i++) {
        a[i].fail = (i < 2u * (unsigned)nc) && (i % 2u == 0u);
    }

    cmb_logger_flags_off(CMB_LOGGER_INFO | CMB_LOGGER_WARNING | CMB_LOGGER_ERROR);
    /* (the flags are thread local, the workers still print their error lines) */
    cimba_run_experiment(a, n, sizeof *a, trial_func);

    unsigned healthy = 0, healthy_not_run = 0, first = n;
    for (unsigned i = 0; i < n; i++) {
        if (!a[i].fail) {
            healthy++;
            if (a[i].calls != 1) {
                healthy_not_run++;
                if (first == n) first = i;
            }
        }
    }
    printf("cores %ld, trials %u, of which %ld bail out with cmb_logger_error()\n", nc, n, nc);
    printf("expected: all %u healthy trials called exactly once\n", healthy);
    printf("got     : %u healthy trials never called (first: index %u)\n", healthy_not_run, first);
    if (healthy_not_run) { printf("DEFECT: cimba_run_experiment() returned without running every trial\n"); return 1; }
    printf("ok\n");
    return 0;
}
