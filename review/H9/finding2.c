/*
 * finding2.c - C19: the result of a trial depends on what ran earlier on the
 * same thread. Processes of equal priority that join the waiting list of a
 * resource in the same simulated instant are ranked by the memory address of
 * their process struct (cmb_resourceguard.c guard_queue_check), and malloc
 * addresses depend on the allocation history of the thread.
 *
 * Trial: np processes, all priority 0, all started at t = 0, each acquires the
 * one resource, notes its turn, holds for an exponential time, releases. The
 * trial seeds the generator from its own parameters. The trial also hands back
 * one small malloc'ed result record per process (freed by main afterwards).
 * Documented order (cmb_resource.h: "priority order, then FIFO"): 0 1 2 3 ...
 */
#include <stdio.h>
#include <stdlib.h>
#include <string.h>
#include <unistd.h>
#include "cimba.h"

#define MAXP 16
struct trial {
    uint64_t seed; int np;               /* parameters */
    int order[MAXP]; int n; double t_end; /* results */
    double *rec[MAXP];                    /* per process result records */
};
struct ctx { struct trial *t; struct cmb_resource *r; int id; };

static void *proc(struct cmb_process *me, void *v)
{
    (void)me;
    struct ctx *c = v;
    cmb_resource_acquire(c->r);
    c->t->order[c->t->n++] = c->id;
    cmb_process_hold(cmb_random_exponential(1.0 + c->id));
    *(c->t->rec[c->id]) = cmb_time();
    c->t->t_end = cmb_time();
    cmb_resource_release(c->r);
    return NULL;
}

static void trial_func(void *vp)
{
    struct trial *t = vp;
    const int np = t->np;
    t->n = 0;
    cmb_logger_flags_off(CMB_LOGGER_INFO | CMB_LOGGER_WARNING);
    cmb_random_initialize(t->seed);
    cmb_event_queue_initialize(0.0);
    struct cmb_resource *r = cmb_resource_create();
    cmb_resource_initialize(r, "R");
    struct cmb_process *p[MAXP];
    struct ctx c[MAXP];
    for (int i = 0; i < np; i++) {
        c[i].t = t; c[i].r = r; c[i].id = i;
        p[i] = cmb_process_create();
        cmb_process_initialize(p[i], "P", proc, &c[i], 0);
        cmb_process_start(p[i]);
        t->rec[i] = malloc(sizeof(double));
    }
    cmb_event_queue_execute();
    for (int i = np - 1; i >= 0; i--) {
        cmb_process_terminate(p[i]);
        cmb_process_destroy(p[i]);
    }
    cmb_resource_terminate(r);
    cmb_resource_destroy(r);
    cmb_event_queue_terminate();
}

static void show(const char *w, const struct trial *t)
{
    printf("%-44s order", w);
    for (int i = 0; i < t->n; i++) printf(" %d", t->order[i]);
    printf("  end time %.17g\n", t->t_end);
}

static int same(const struct trial *a, const struct trial *b)
{
    return a->n == b->n && !memcmp(a->order, b->order, sizeof a->order)
           && !memcmp(&a->t_end, &b->t_end, sizeof(double));
}

int main(void)
{
    /* Serial, single thread: X alone, then an unrelated trial J, then X again */
    struct trial x1 = { .seed = 1, .np = 6 };
    struct trial j  = { .seed = 2, .np = 12 };
    struct trial x2 = { .seed = 1, .np = 6 };
    trial_func(&x1);
    trial_func(&j);
    trial_func(&x2);
    show("serial: trial X (seed 1, 6 procs) first", &x1);
    show("serial: same trial X after trial J", &x2);
    const int serial_differs = !same(&x1, &x2);

    /* Experiment: many copies of X mixed with J's of different sizes */
    const long nc = sysconf(_SC_NPROCESSORS_ONLN);
    const unsigned n = 8u * (unsigned)nc;
    struct trial *e = calloc(n, sizeof *e);
    for (unsigned i = 0; i < n; i++) {
        if (i % 2) { e[i].seed = 1; e[i].np = 6; }
        else { e[i].seed = 100 + i; e[i].np = 7 + (int)(i % 9); }
    }
    cimba_run_experiment(e, n, sizeof *e, trial_func);
    unsigned ndiff = 0, nx = 0;
    for (unsigned i = 1; i < n; i += 2) {
        nx++;
        if (!same(&e[i], &x1)) {
            if (ndiff == 0) show("experiment: a copy of trial X", &e[i]);
            ndiff++;
        }
    }
    printf("experiment: %u of %u identical X trials differ from the serial X result\n", ndiff, nx);
    printf("expected: every X gives order 0 1 2 3 4 5 and the same end time\n");
    if (serial_differs || ndiff) { printf("DEFECT: result of a trial depends on what ran before it on the thread\n"); return 1; }
    printf("ok\n");
    return 0;
}
