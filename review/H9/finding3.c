/*
 * finding3.c - C19, second instance of the address-ordering defect: the victim
 * of a resource pool preemption among equal-priority holders is chosen by the
 * memory address of the process struct (cmb_resourcepool.c holder_queue_check,
 * key = (uint64_t)pp), so which process loses its units depends on the heap
 * history of the thread.
 *
 * Trial: np processes of priority 0 each take 1 unit of a pool of capacity np
 * at t = 0 and hold for 10; at t = 1 a priority 5 process preempts 1 unit.
 * The result of the trial is the id of the process that was preempted.
 */
#include <stdio.h>
#include <stdlib.h>
#include <string.h>
#include <unistd.h>
#include "cimba.h"

#define MAXP 16
struct trial { uint64_t seed; int np; int victim; double *rec[MAXP]; };
struct ctx { struct trial *t; struct cmb_resourcepool *r; int id; };

static void *holder(struct cmb_process *me, void *v)
{
    (void)me;
    struct ctx *c = v;
    cmb_resourcepool_acquire(c->r, 1u);
    if (cmb_process_hold(10.0) == CMB_PROCESS_PREEMPTED) {
        c->t->victim = c->id;
        return NULL;
    }
    cmb_resourcepool_release(c->r, 1u);
    return NULL;
}

static void *mugger(struct cmb_process *me, void *v)
{
    (void)me;
    struct ctx *c = v;
    cmb_process_hold(1.0);
    cmb_resourcepool_preempt(c->r, 1u);
    cmb_process_hold(1.0);
    cmb_resourcepool_release(c->r, 1u);
    return NULL;
}

static void trial_func(void *vp)
{
    struct trial *t = vp;
    const int np = t->np;
    t->victim = -1;
    cmb_logger_flags_off(CMB_LOGGER_INFO | CMB_LOGGER_WARNING);
    cmb_random_initialize(t->seed);
    cmb_event_queue_initialize(0.0);
    struct cmb_resourcepool *r = cmb_resourcepool_create();
    cmb_resourcepool_initialize(r, "Pool", (uint64_t)np);
    struct cmb_process *p[MAXP + 1];
    struct ctx c[MAXP + 1];
    for (int i = 0; i <= np; i++) {
        c[i].t = t; c[i].r = r; c[i].id = i;
        p[i] = cmb_process_create();
        if (i < np) cmb_process_initialize(p[i], "Holder", holder, &c[i], 0);
        else cmb_process_initialize(p[i], "Mugger", mugger, &c[i], 5);
        cmb_process_start(p[i]);
        if (i < np) t->rec[i] = malloc(sizeof(double));
    }
    cmb_event_queue_execute();
    for (int i = np; i >= 0; i--) {
        cmb_process_terminate(p[i]);
        cmb_process_destroy(p[i]);
    }
    cmb_resourcepool_terminate(r);
    cmb_resourcepool_destroy(r);
    cmb_event_queue_terminate();
}

int main(void)
{
    struct trial x1 = { .seed = 1, .np = 6 };
    struct trial j  = { .seed = 2, .np = 12 };
    struct trial x2 = { .seed = 1, .np = 6 };
    trial_func(&x1);
    trial_func(&j);
    trial_func(&x2);
    printf("serial: trial X first           : preempted holder %d\n", x1.victim);
    printf("serial: same trial X after trial J: preempted holder %d\n", x2.victim);

    const long nc = sysconf(_SC_NPROCESSORS_ONLN);
    const unsigned n = 8u * (unsigned)nc;
    struct trial *e = calloc(n, sizeof *e);
    for (unsigned i = 0; i < n; i++) {
        if (i % 2) { e[i].seed = 1; e[i].np = 6; }
        else { e[i].seed = 100 + i; e[i].np = 7 + (int)(i % 9); }
    }
    cimba_run_experiment(e, n, sizeof *e, trial_func);
    unsigned ndiff = 0, nx = 0;
    int cnt[MAXP + 1] = { 0 };
    for (unsigned i = 1; i < n; i += 2) {
        nx++;
        if (e[i].victim != x1.victim) ndiff++;
        if (e[i].victim >= 0) cnt[e[i].victim]++;
    }
    printf("experiment: %u of %u identical X trials preempted another holder than the serial X did; victims:", ndiff, nx);
    for (int i = 0; i < 6; i++) printf(" #%d x%d", i, cnt[i]);
    printf("\nexpected: the same holder every time (documented: lowest priority, then last in)\n");
    if (x1.victim != x2.victim || ndiff) { printf("DEFECT: result of a trial depends on what ran before it on the thread\n"); return 1; }
    printf("ok\n");
    return 0;
}
