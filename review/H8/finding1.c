/*
 * finding1.c - C01: a scheduled user event that nobody cancelled never runs.
 *
 * cmb_event.h documents the `subject` of an event as "a self-pointer for
 * whatever entity (e.g., a cmb_process) is acting here". A user event scheduled
 * with a process as its subject is silently removed from the event queue when
 * that process (a) returns / exits, (b) is interrupted, or (c) is stopped,
 * because cmi_process_cancel_awaiteds() ends with
 *     cmb_event_pattern_cancel(CMB_ANY_ACTION, pp, CMB_ANY_OBJECT);
 *
 * Expected: each of the three user events runs exactly once at its time.
 * Got: none of them runs; cmb_event_is_scheduled() turns false although the
 *      program never cancelled them.
 */
#include <stdio.h>
#include <stdint.h>
#include <stdbool.h>
#include "cimba.h"

static int ran[3];
static double ran_at[3];
static uint64_t handle[3];
static bool sched_after[3];

static void user_event(void *subject, void *object)
{
    (void)subject;
    const int i = (int)(intptr_t)object;
    ran[i]++;
    ran_at[i] = cmb_time();
}

/* (a) schedules an event "about itself" for t = 5, then finishes at t = 1 */
static void *proc_a(struct cmb_process *me, void *ctx)
{
    (void)ctx;
    handle[0] = cmb_event_schedule(user_event, me, (void *)(intptr_t)0, 5.0, 0);
    cmb_process_hold(1.0);
    return NULL;
}

/* (b) and (c): just holds for a long time */
static void *proc_sleeper(struct cmb_process *me, void *ctx)
{
    (void)me; (void)ctx;
    while (cmb_time() < 20.0) {
        (void)cmb_process_hold(20.0 - cmb_time());
    }
    return NULL;
}

static struct cmb_process *pb, *pc;

static void do_interrupt(void *s, void *o)
{
    (void)s; (void)o;
    cmb_process_interrupt(pb, CMB_PROCESS_INTERRUPTED, 0);
}

static void do_stop(void *s, void *o)
{
    (void)s; (void)o;
    cmb_process_stop(pc, NULL);
}

static void probe(void *s, void *o)
{
    (void)s; (void)o;
    for (int i = 0; i < 3; i++) {
        sched_after[i] = cmb_event_is_scheduled(handle[i]);
    }
}

int main(void)
{
    cmb_logger_flags_off(CMB_LOGGER_INFO | CMB_LOGGER_WARNING);
    cmb_event_queue_initialize(0.0);

    struct cmb_process *pa = cmb_process_create();
    cmb_process_initialize(pa, "A", proc_a, NULL, 0);
    pb = cmb_process_create();
    cmb_process_initialize(pb, "B", proc_sleeper, NULL, 0);
    pc = cmb_process_create();
    cmb_process_initialize(pc, "C", proc_sleeper, NULL, 0);
    cmb_process_start(pa);
    cmb_process_start(pb);
    cmb_process_start(pc);

    /* Run the three start events first so that they are not part of the picture */
    (void)cmb_event_execute_next();
    (void)cmb_event_execute_next();
    (void)cmb_event_execute_next();

    /* User events about B and C, due at t = 7 and t = 8 */
    handle[1] = cmb_event_schedule(user_event, pb, (void *)(intptr_t)1, 7.0, 0);
    handle[2] = cmb_event_schedule(user_event, pc, (void *)(intptr_t)2, 8.0, 0);
    /* B is interrupted at t = 3, C is stopped at t = 4 */
    (void)cmb_event_schedule(do_interrupt, NULL, NULL, 3.0, 0);
    (void)cmb_event_schedule(do_stop, NULL, NULL, 4.0, 0);
    /* Look at the three handles at t = 4.5, before any of them is due */
    (void)cmb_event_schedule(probe, NULL, NULL, 4.5, 0);

    cmb_event_queue_execute();

    int bad = 0;
    static const char *why[3] = { "its subject process returned at t=1",
                                  "its subject process was interrupted at t=3",
                                  "its subject process was stopped at t=4" };
    static const double due[3] = { 5.0, 7.0, 8.0 };
    for (int i = 0; i < 3; i++) {
        printf("user event %d (handle %llu, due t=%.1f, never cancelled by the program; %s):\n",
               i, (unsigned long long)handle[i], due[i], why[i]);
        printf("   expected: still scheduled at t=4.5, runs once at t=%.1f\n", due[i]);
        printf("   got     : scheduled at t=4.5: %s, runs: %d", sched_after[i] ? "yes" : "no", ran[i]);
        if (ran[i]) printf(" (at t=%.1f)", ran_at[i]);
        printf("\n");
        if (ran[i] != 1 || !sched_after[i]) bad++;
    }

    cmb_process_terminate(pa); cmb_process_destroy(pa);
    cmb_process_terminate(pb); cmb_process_destroy(pb);
    cmb_process_terminate(pc); cmb_process_destroy(pc);
    cmb_event_queue_terminate();

    if (bad) {
        printf("DEFECT: %d scheduled, never cancelled event(s) did not run\n", bad);
        return 1;
    }
    printf("ok\n");
    return 0;
}
