/*
 * finding2.c - C02: mixing a caller-supplied key with generated keys in one
 * hashheap makes the generator hand out a key that is already live.
 *
 * cmi_hashheap_enqueue() takes the next generated key from item_counter, which
 * counts enqueue calls and knows nothing about the keys supplied by the caller.
 * Here the caller supplies key 2 for the first entry; the second entry asks
 * for a generated key (hashkey 0) and is given 2 as well.
 *
 * Expected: two live entries with two different non-zero keys; lookups,
 *           removal and reprioritisation by key hit exactly one entry each,
 *           and after removing both keys the queue is empty.
 * Got:      both entries carry key 2; the second one cannot be addressed and
 *           remove(2) has to be called twice.
 */
#include <stdio.h>
#include <stdint.h>
#include <stdbool.h>
#include "cmi_hashheap.h"

int main(void)
{
    int bad = 0;
    static int A = 1, B = 2;

    struct cmi_hashheap *hp = cmi_hashheap_create();
    cmi_hashheap_initialize(hp, 3u, NULL);          /* default order: smallest dsortkey first */

    const uint64_t ka = cmi_hashheap_enqueue(hp, &A, NULL, NULL, NULL, 2u, 10.0, 0);
    const uint64_t kb = cmi_hashheap_enqueue(hp, &B, NULL, NULL, NULL, 0u, 20.0, 0);

    printf("key of A (caller supplied 2): %llu\n", (unsigned long long)ka);
    printf("key of B (generated)        : %llu   expected: anything but %llu\n",
           (unsigned long long)kb, (unsigned long long)ka);
    if (ka == kb) {
        printf("  -> DEFECT: a generated key duplicates a live key\n");
        bad++;
    }

    /* What the map says about "B" */
    void **itb = cmi_hashheap_item(hp, kb);
    printf("item(key of B) is %s            expected: B\n", (itb[0] == &B) ? "B" : "A");
    if (itb[0] != &B) bad++;
    printf("dkey(key of B) = %.1f           expected: 20.0\n", cmi_hashheap_dkey(hp, kb));
    if (cmi_hashheap_dkey(hp, kb) != 20.0) bad++;

    /* Move B in front of A through its key */
    cmi_hashheap_reprioritize(hp, kb, 5.0, 0);
    void **first = cmi_hashheap_peek_item(hp);
    printf("after reprioritize(key of B, 5.0) the first item is %s with dkey %.1f   expected: B with 5.0\n",
           (first[0] == &B) ? "B" : "A", cmi_hashheap_peek_dkey(hp));
    if (first[0] != &B) bad++;

    /* Remove B by its key: exactly B must go */
    (void)cmi_hashheap_remove(hp, kb);
    printf("after remove(key of B): count %llu, is_enqueued(key of A) %d, is_enqueued(key of B) %d   expected: 1, 1, 0\n",
           (unsigned long long)cmi_hashheap_count(hp),
           (int)cmi_hashheap_is_enqueued(hp, ka), (int)cmi_hashheap_is_enqueued(hp, kb));
    first = cmi_hashheap_peek_item(hp);
    printf("remaining first item is %s     expected: A\n", (first != NULL && first[0] == &A) ? "A" : "B");
    if (first == NULL || first[0] != &A) bad++;

    cmi_hashheap_destroy(hp);
    if (bad) {
        printf("DEFECT shown (%d checks failed)\n", bad);
        return 1;
    }
    printf("ok\n");
    return 0;
}
