/*
 * finding1.c - C05 (mutual exclusion) broken: a preemption notice that is overtaken by a
 * higher-priority cmb_process_interrupt() in the same instant is erased, the victim is told
 * "interrupted" (which by contract means "you still hold it"), releases, and the resource is
 * handed to a third process while the preemptor still holds it.
 *
 *   t=0  V (prio 1) acquires R, holds for 10.
 *   t=1  W (prio 0) asks for R, waits.
 *   t=5  Q (prio 5) preempts R from V (success), and in the same instant posts
 *        cmb_process_interrupt(V, 77, 100)   (any process could post it; priority > V's).
 *        Q then holds R until t=8.
 *
 * Expected: V's hold returns CMB_PROCESS_PREEMPTED (-1) (the interrupt may follow later);
 *           W gets R at t=8 when Q releases it.
 * Got:      V's hold returns 77 and never sees -1; V releases "its" resource; W acquires R at
 *           t=5 while Q holds it; cmb_resource_holder says W, Q's own record still lists R.
 *
 * Build: see findings.md. Exit status 1 when the defect shows.
 */
#include <stdio.h>
#include <inttypes.h>
#include "cimba.h"

#define MYSIG INT64_C(77)

static struct cmb_resource *R;
static struct cmb_process *V, *Q, *W;
static int violations = 0;
static int64_t v_sig = 12345;
static int q_has = 0, w_has = 0;
static double w_time = -1.0;

static void *vfunc(struct cmb_process *me, void *ctx)
{
    (void)ctx;
    int64_t s = cmb_resource_acquire(R);
    printf("[%4.1f] V acquire -> %" PRIi64 "\n", cmb_time(), s);
    s = cmb_process_hold(10.0);
    v_sig = s;
    printf("[%4.1f] V hold -> %" PRIi64 "   (cmb_resource_held_by_process(R, V) = %" PRIu64 ")\n",
           cmb_time(), s, cmb_resource_held_by_process(R, me));
    if (s == CMB_PROCESS_PREEMPTED) {
        /* Lost it, nothing to give back */
        return NULL;
    }

    /* Normal end of hold, or an application interrupt: we still hold R (see tutorial/tut_2_1.c) */
    cmb_resource_release(R);
    printf("[%4.1f] V released R\n", cmb_time());
    return NULL;
}

static void *qfunc(struct cmb_process *me, void *ctx)
{
    (void)ctx;
    cmb_process_hold(5.0);
    int64_t s = cmb_resource_preempt(R);
    printf("[%4.1f] Q preempt -> %" PRIi64 "\n", cmb_time(), s);
    if (s != CMB_PROCESS_SUCCESS) {
        return NULL;
    }

    q_has = 1;
    cmb_process_interrupt(V, MYSIG, 100);
    s = cmb_process_hold(3.0);
    printf("[%4.1f] Q hold -> %" PRIi64 ", holder query says %s, W believes it holds R: %s\n",
           cmb_time(), s, (R->holder != NULL) ? cmb_process_name(R->holder) : "(none)",
           w_has ? "yes" : "no");
    if (s == CMB_PROCESS_SUCCESS) {
        if (w_has) {
            printf("VIOLATION: Q and W hold R at the same time\n");
            violations++;
        }
        if (R->holder != me) {
            printf("VIOLATION: Q was never preempted, but the holder query does not say Q\n");
            violations++;
        }
        q_has = 0;
        if (R->holder == me) {
            cmb_resource_release(R);
        }
    }

    return NULL;
}

static void *wfunc(struct cmb_process *me, void *ctx)
{
    (void)ctx;
    cmb_process_hold(1.0);
    const int64_t s = cmb_resource_acquire(R);
    w_time = cmb_time();
    printf("[%4.1f] W acquire -> %" PRIi64 " (Q holds R: %s)\n", cmb_time(), s, q_has ? "yes" : "no");
    if (s == CMB_PROCESS_SUCCESS) {
        w_has = 1;
        if (q_has) {
            printf("VIOLATION: W's acquire succeeded while Q holds R\n");
            violations++;
        }
        cmb_process_hold(10.0);
        w_has = 0;
        if (R->holder == me) {
            cmb_resource_release(R);
        }
    }

    return NULL;
}

int main(void)
{
    cmb_logger_flags_off(CMB_LOGGER_INFO | CMB_LOGGER_WARNING);
    cmb_event_queue_initialize(0.0);
    R = cmb_resource_create();
    cmb_resource_initialize(R, "R");
    V = cmb_process_create();
    cmb_process_initialize(V, "V", vfunc, NULL, 1);
    Q = cmb_process_create();
    cmb_process_initialize(Q, "Q", qfunc, NULL, 5);
    W = cmb_process_create();
    cmb_process_initialize(W, "W", wfunc, NULL, 0);
    cmb_process_start(V);
    cmb_process_start(Q);
    cmb_process_start(W);
    cmb_event_queue_execute();

    printf("\nexpected: V's hold returns %d (CMB_PROCESS_PREEMPTED), W acquires at t=8, 0 violations\n",
           (int)CMB_PROCESS_PREEMPTED);
    printf("got:      V's hold returned %" PRIi64 ", W acquired at t=%g, %d violations\n",
           v_sig, w_time, violations);

    return ((violations != 0) || (v_sig != CMB_PROCESS_PREEMPTED) || (w_time != 8.0)) ? 1 : 0;
}
