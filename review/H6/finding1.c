/*
 * finding1.c - C06: a waiter selected by a release loses its place in the
 * waiting list (and a newcomer is served ahead of everybody waiting) when some
 * other process takes the resource between the release and the wakeup event.
 *
 * Timeline, all processes priority 0, one cmb_resource R:
 *   t=0   H acquires R, holds it until t=10
 *   t=1   A calls cmb_resource_acquire(R)  -> waits (first in line)
 *   t=2   C calls cmb_resource_acquire(R)  -> waits (second in line)
 *   t=3   B holds until t=10
 *   t=10  H releases R (A is selected, its wakeup event is scheduled)
 *   t=10  B (not a waiter until now) calls cmb_resource_acquire(R)
 *   t=20  whoever holds R releases, and so on, each holder keeps R for 10
 *
 * Expected order of service: H A C B (B arrived last, A waited longest)
 *
 * Second scenario, resource R2: L (priority 0) holds R2 from t=100, X (priority
 * 5) asks for it at t=101 and waits. At t=110 L releases R2 and asks for it
 * again at once. Expected: X (higher priority, already waiting) gets R2 at
 * t=110 and L waits; got: L is served at once, X only at t=120.
 */
#include <stdio.h>
#include <string.h>
#include <stdint.h>
#include "cimba.h"

static struct cmb_resource *R;
static char order[16];
static double got_at[128];

static void served(const char c)
{
    const size_t n = strlen(order);
    order[n] = c;
    order[n + 1] = '\0';
    got_at[(int)c] = cmb_time();
}

struct arg { char tag; double start; };

static void *user(struct cmb_process *me, void *vctx)
{
    (void)me;
    const struct arg *a = vctx;
    if (a->start > 0.0) {
        (void)cmb_process_hold(a->start);
    }
    if (a->tag == 'B') {
        /* B has been busy elsewhere from t=3 until t=10 */
        (void)cmb_process_hold(7.0);
    }

    const int64_t sig = cmb_resource_acquire(R);
    if (sig != CMB_PROCESS_SUCCESS) {
        printf("unexpected signal %ld\n", (long)sig);
        return NULL;
    }
    served(a->tag);
    (void)cmb_process_hold(10.0);
    cmb_resource_release(R);

    return NULL;
}

static struct cmb_resource *R2;
static double x_got = -1.0, l_got_again = -1.0;

static void *low(struct cmb_process *me, void *vctx)
{
    (void)me; (void)vctx;
    (void)cmb_process_hold(100.0);
    (void)cmb_resource_acquire(R2);
    (void)cmb_process_hold(10.0);
    cmb_resource_release(R2);
    (void)cmb_resource_acquire(R2);
    l_got_again = cmb_time();
    (void)cmb_process_hold(10.0);
    cmb_resource_release(R2);
    return NULL;
}

static void *high(struct cmb_process *me, void *vctx)
{
    (void)me; (void)vctx;
    (void)cmb_process_hold(101.0);
    (void)cmb_resource_acquire(R2);
    x_got = cmb_time();
    (void)cmb_process_hold(10.0);
    cmb_resource_release(R2);
    return NULL;
}

int main(void)
{
    cmb_logger_flags_off(CMB_LOGGER_INFO | CMB_LOGGER_WARNING);
    cmb_random_initialize(1u);
    cmb_event_queue_initialize(0.0);

    R = cmb_resource_create();
    cmb_resource_initialize(R, "R");

    static struct arg args[4] = { {'H', 0.0}, {'A', 1.0}, {'C', 2.0}, {'B', 3.0} };
    struct cmb_process *p[4];
    for (int i = 0; i < 4; i++) {
        char name[2] = { args[i].tag, '\0' };
        p[i] = cmb_process_create();
        cmb_process_initialize(p[i], name, user, &args[i], 0);
        cmb_process_start(p[i]);
    }

    R2 = cmb_resource_create();
    cmb_resource_initialize(R2, "R2");
    struct cmb_process *pl = cmb_process_create();
    struct cmb_process *px = cmb_process_create();
    cmb_process_initialize(pl, "L", low, NULL, 0);
    cmb_process_initialize(px, "X", high, NULL, 5);
    cmb_process_start(pl);
    cmb_process_start(px);

    cmb_event_queue_execute();

    printf("A started waiting at t=1, C at t=2, B asked at t=10, equal priorities\n");
    printf("expected order of service: HACB\n");
    printf("got      order of service: %s\n", order);
    printf("  A served at t=%g, C at t=%g, B at t=%g\n",
           got_at['A'], got_at['C'], got_at['B']);

    int bad = (strcmp(order, "HACB") != 0);
    if (bad) {
        printf("DEFECT: waiters not served in order of waiting time\n");
    }

    printf("scenario 2: X (priority 5) waits since t=101, L (priority 0) releases and asks again at t=110\n");
    printf("expected: X served at t=110, L served again at t=120\n");
    printf("got     : X served at t=%g, L served again at t=%g\n", x_got, l_got_again);
    if (x_got != 110.0 || l_got_again != 120.0) {
        printf("DEFECT: the lower-priority process was served ahead of the higher-priority waiter\n");
        bad = 1;
    }

    for (int i = 0; i < 4; i++) {
        cmb_process_terminate(p[i]);
        cmb_process_destroy(p[i]);
    }
    cmb_resource_destroy(R);
    cmb_event_queue_terminate();

    return bad;
}
