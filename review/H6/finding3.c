/*
 * finding3.c - C06: a process blocked in ONE call to cmb_buffer_get() /
 * cmb_resourcepool_acquire() that is served in part goes to the back of the
 * waiting list among its equals: its waiting time is counted from the partial
 * delivery, not from when it started waiting. A later arrival of the same
 * priority is then woken (and completed) ahead of it.
 *
 * Buffer, empty. A asks for 2 units at t=1, C asks for 1 unit at t=2, both
 * priority 0. A producer puts 1 unit at t=5 and 1 unit at t=6.
 * Expected: both units go to A (who started waiting first): A done at t=6,
 *           C still waiting.
 * Same with a pool of 2 units, both held by a holder that releases one at t=5
 * and one at t=6.
 */
#include <stdio.h>
#include <string.h>
#include <stdint.h>
#include "cimba.h"

static struct cmb_buffer *B;
static struct cmb_resourcepool *P;
static double done_at[8];
static const char *nm[8] = { "A(buffer)", "C(buffer)", "A(pool)", "C(pool)" };

struct arg { int id; double start; uint64_t amount; };

static void *getter(struct cmb_process *me, void *vctx)
{
    (void)me;
    const struct arg *a = vctx;
    (void)cmb_process_hold(a->start);
    uint64_t amount = a->amount;
    const int64_t sig = cmb_buffer_get(B, &amount);
    if (sig == CMB_PROCESS_SUCCESS) {
        done_at[a->id] = cmb_time();
        printf("t=%g %s has its %lu unit(s)\n", cmb_time(), nm[a->id], (unsigned long)a->amount);
    }
    return NULL;
}

static void *producer(struct cmb_process *me, void *vctx)
{
    (void)me; (void)vctx;
    (void)cmb_process_hold(5.0);
    uint64_t one = 1u;
    (void)cmb_buffer_put(B, &one);
    (void)cmb_process_hold(1.0);
    one = 1u;
    (void)cmb_buffer_put(B, &one);
    return NULL;
}

static void *acquirer(struct cmb_process *me, void *vctx)
{
    (void)me;
    const struct arg *a = vctx;
    (void)cmb_process_hold(a->start);
    const int64_t sig = cmb_resourcepool_acquire(P, a->amount);
    if (sig == CMB_PROCESS_SUCCESS) {
        done_at[a->id] = cmb_time();
        printf("t=%g %s has its %lu unit(s)\n", cmb_time(), nm[a->id], (unsigned long)a->amount);
        (void)cmb_process_hold(1000.0);     /* keeps what it has */
    }
    return NULL;
}

static void *poolholder(struct cmb_process *me, void *vctx)
{
    (void)me; (void)vctx;
    (void)cmb_resourcepool_acquire(P, 2u);
    (void)cmb_process_hold(5.0);
    cmb_resourcepool_release(P, 1u);
    (void)cmb_process_hold(1.0);
    cmb_resourcepool_release(P, 1u);
    return NULL;
}

static void stop_event(void *s, void *o) { (void)s; (void)o; cmb_event_queue_clear(); }

int main(void)
{
    cmb_logger_flags_off(CMB_LOGGER_INFO | CMB_LOGGER_WARNING);
    cmb_random_initialize(1u);
    cmb_event_queue_initialize(0.0);

    B = cmb_buffer_create();
    cmb_buffer_initialize(B, "B", 10u);
    P = cmb_resourcepool_create();
    cmb_resourcepool_initialize(P, "P", 2u);

    static struct arg args[4] = { {0, 1.0, 2u}, {1, 2.0, 1u}, {2, 1.0, 2u}, {3, 2.0, 1u} };
    struct cmb_process *p[6];
    for (int i = 0; i < 6; i++) p[i] = cmb_process_create();
    cmb_process_initialize(p[0], "A", getter, &args[0], 0);
    cmb_process_initialize(p[1], "C", getter, &args[1], 0);
    cmb_process_initialize(p[2], "prod", producer, NULL, 0);
    cmb_process_initialize(p[3], "holder", poolholder, NULL, 0);
    cmb_process_initialize(p[4], "A2", acquirer, &args[2], 0);
    cmb_process_initialize(p[5], "C2", acquirer, &args[3], 0);
    cmb_process_start(p[3]);
    for (int i = 0; i < 6; i++) if (i != 3) cmb_process_start(p[i]);
    (void)cmb_event_schedule(stop_event, NULL, NULL, 100.0, 0);

    cmb_event_queue_execute();

    int bad = 0;
    printf("expected: A(buffer) complete at t=6, C(buffer) still waiting\n");
    printf("got     : A(buffer) %s%g, C(buffer) %s%g\n",
           done_at[0] > 0 ? "complete at t=" : "never complete ", done_at[0],
           done_at[1] > 0 ? "complete at t=" : "still waiting ", done_at[1]);
    if (done_at[0] != 6.0 || done_at[1] != 0.0) bad = 1;
    printf("expected: A(pool) complete at t=6, C(pool) still waiting\n");
    printf("got     : A(pool) %s%g, C(pool) %s%g\n",
           done_at[2] > 0 ? "complete at t=" : "never complete ", done_at[2],
           done_at[3] > 0 ? "complete at t=" : "still waiting ", done_at[3]);
    if (done_at[2] != 6.0 || done_at[3] != 0.0) bad = 1;
    if (bad) {
        printf("DEFECT: the waiter that started waiting first was put behind a later arrival of equal priority\n");
    }
    return bad;
}
