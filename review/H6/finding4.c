/*
 * finding4.c - C13 (observed guards): cmb_condition_signal() on a condition
 * does not reach the conditions registered as observers of that condition's
 * waiting list, although signalling the same waiting list with
 * cmb_resourceguard_signal() does.
 *
 * c2 is subscribed to the guard of c1: cmb_condition_subscribe(c2, &c1->guard).
 * w1 waits on c1, w2 waits on c2, both for the same flag. At t=1 the flag is
 * set and c1 is signalled with cmb_condition_signal(c1).
 * Expected: w1 and w2 both resumed at t=1 with CMB_PROCESS_SUCCESS.
 * At t=2 (control) the guard of c1 is signalled with cmb_resourceguard_signal().
 */
#include <stdio.h>
#include <stdint.h>
#include "cimba.h"

static struct cmb_condition *c1, *c2;
static bool flag;
static double woke[2] = { -1.0, -1.0 };

static bool pr(const struct cmb_condition *c, const struct cmb_process *p, const void *x)
{
    (void)c; (void)p; (void)x;
    return flag;
}

static void *wt(struct cmb_process *me, void *ctx)
{
    const int i = (ctx == c1) ? 0 : 1;
    const int64_t s = cmb_condition_wait(ctx, pr, NULL);
    printf("t=%g %s resumed with signal %ld\n", cmb_time(), cmb_process_name(me), (long)s);
    if (s == CMB_PROCESS_SUCCESS) woke[i] = cmb_time();
    return NULL;
}

static void *drv(struct cmb_process *me, void *ctx)
{
    (void)me; (void)ctx;
    (void)cmb_process_hold(1.0);
    flag = true;
    printf("t=1 flag set, cmb_condition_signal(c1)\n");
    (void)cmb_condition_signal(c1);
    (void)cmb_process_hold(1.0);
    printf("t=2 control: cmb_resourceguard_signal(&c1->guard)\n");
    (void)cmb_resourceguard_signal(&c1->guard);
    return NULL;
}

int main(void)
{
    cmb_logger_flags_off(CMB_LOGGER_INFO | CMB_LOGGER_WARNING);
    cmb_random_initialize(1u);
    cmb_event_queue_initialize(0.0);
    c1 = cmb_condition_create(); cmb_condition_initialize(c1, "c1");
    c2 = cmb_condition_create(); cmb_condition_initialize(c2, "c2");
    cmb_condition_subscribe(c2, &c1->guard);

    struct cmb_process *p[3];
    for (int i = 0; i < 3; i++) p[i] = cmb_process_create();
    cmb_process_initialize(p[0], "w1", wt, c1, 0);
    cmb_process_initialize(p[1], "w2", wt, c2, 0);
    cmb_process_initialize(p[2], "drv", drv, NULL, 0);
    for (int i = 0; i < 3; i++) cmb_process_start(p[i]);
    cmb_event_queue_execute();

    printf("expected: w1 resumed at t=1, w2 (observer of c1's waiting list) resumed at t=1\n");
    printf("got     : w1 resumed at t=%g, w2 resumed at t=%g\n", woke[0], woke[1]);
    const int bad = (woke[0] != 1.0) || (woke[1] != 1.0);
    if (bad) printf("DEFECT: the explicit signal was not forwarded to the observing condition\n");
    cmb_event_queue_terminate();
    return bad;
}
