/*
 * finding2.c - C06: two waiters of equal priority arriving in the same
 * simulated instant are not served in the order in which they started waiting;
 * the tie is broken by the memory address of the process object.
 *
 * One cmb_resource R, held by H from t=0 to t=5. At t=1 process "first" calls
 * cmb_resource_acquire(R), then (same instant, next event) process "second"
 * does. Both have priority 0. Expected: "first" gets R at t=5, "second" at t=6.
 * The same is shown for a condition: two waiters, one signal, order of resumption.
 *
 * The program is valid for any placement of the two process objects; to be
 * deterministic it gives the role "first" to the object at the higher address.
 */
#include <stdio.h>
#include <string.h>
#include <stdint.h>
#include "cimba.h"

static struct cmb_resource *R;
static struct cmb_condition *CV;
static char order[32];
static bool flag = false;

static void note(const char *s) { strcat(order, s); strcat(order, " "); }

static bool flag_set(const struct cmb_condition *c, const struct cmb_process *p, const void *ctx)
{
    (void)c; (void)p; (void)ctx;
    return flag;
}

static void *holder(struct cmb_process *me, void *ctx)
{
    (void)me; (void)ctx;
    (void)cmb_resource_acquire(R);
    (void)cmb_process_hold(5.0);
    cmb_resource_release(R);
    (void)cmb_process_hold(5.0);        /* t=10 */
    flag = true;
    (void)cmb_condition_signal(CV);
    return NULL;
}

static void *user(struct cmb_process *me, void *ctx)
{
    (void)ctx;
    (void)cmb_process_hold(1.0);
    /* t=1: "first" runs before "second" here, it was started first */
    printf("t=%g %s asks for R\n", cmb_time(), cmb_process_name(me));
    (void)cmb_resource_acquire(R);
    printf("t=%g %s got R\n", cmb_time(), cmb_process_name(me));
    note(cmb_process_name(me));
    (void)cmb_process_hold(1.0);
    cmb_resource_release(R);
    return NULL;
}

static void *cwaiter(struct cmb_process *me, void *ctx)
{
    (void)ctx;
    (void)cmb_process_hold(2.0);
    printf("t=%g %s waits for the condition\n", cmb_time(), cmb_process_name(me));
    (void)cmb_condition_wait(CV, flag_set, NULL);
    printf("t=%g %s resumed by the condition\n", cmb_time(), cmb_process_name(me));
    note(cmb_process_name(me));
    return NULL;
}

int main(void)
{
    cmb_logger_flags_off(CMB_LOGGER_INFO | CMB_LOGGER_WARNING);
    cmb_random_initialize(1u);
    cmb_event_queue_initialize(0.0);

    R = cmb_resource_create();
    cmb_resource_initialize(R, "R");
    CV = cmb_condition_create();
    cmb_condition_initialize(CV, "CV");

    struct cmb_process *h = cmb_process_create();
    cmb_process_initialize(h, "H", holder, NULL, 0);
    cmb_process_start(h);

    struct cmb_process *x = cmb_process_create();
    struct cmb_process *y = cmb_process_create();
    struct cmb_process *first = ((uintptr_t)x > (uintptr_t)y) ? x : y;
    struct cmb_process *second = (first == x) ? y : x;
    cmb_process_initialize(first, "first", user, NULL, 0);
    cmb_process_initialize(second, "second", user, NULL, 0);
    cmb_process_start(first);
    cmb_process_start(second);

    struct cmb_process *cx = cmb_process_create();
    struct cmb_process *cy = cmb_process_create();
    struct cmb_process *cfirst = ((uintptr_t)cx > (uintptr_t)cy) ? cx : cy;
    struct cmb_process *csecond = (cfirst == cx) ? cy : cx;
    cmb_process_initialize(cfirst, "c-first", cwaiter, NULL, 0);
    cmb_process_initialize(csecond, "c-second", cwaiter, NULL, 0);
    cmb_process_start(cfirst);
    cmb_process_start(csecond);

    cmb_event_queue_execute();

    const char *expected = "first second c-first c-second ";
    printf("expected order: %s\n", expected);
    printf("got      order: %s\n", order);
    const int bad = (strcmp(order, expected) != 0);
    if (bad) {
        printf("DEFECT: equal-priority waiters that arrived in the same instant are not served in arrival order\n");
    }

    cmb_event_queue_terminate();
    return bad;
}
