#!/bin/bash
# build.sh <variant> -- build /repo's current working tree into /verif/build/<variant>/libcimba.a
# and the harness /verif/build/<variant>/cimsim.  Variants:
#   rel : gcc  -O3 -DNDEBUG            (shipped flags minus LTO; release asserts live)
#   san : clang -O1 -g -DNDEBUG + ASan/UBSan (alignment,null off, see DESIGN.md section 3)
#   dbg : gcc  -O1 -g (no NDEBUG: the library's debug asserts are live; diagnostic use only)
#   cov : gcc  -O0 --coverage (reach measurement only, see checks/coverage.sh)
# Content-addressed: the library is recompiled whenever any file under /repo/{src,include,codegen}
# differs from the fingerprint stored with the previous build; the harness whenever sim/ differs.
set -euo pipefail
V="${1:-rel}"
REPO="${REPO:-/repo}"
HERE="$(cd "$(dirname "$0")" && pwd)"
OUT="${VERIF_BUILD_ROOT:-$HERE/build}/$V"
mkdir -p "$OUT/obj" "$OUT/gen" "$OUT/sim"
# two checks started at the same time must not rebuild the same directory concurrently
exec 9>"$OUT/.build.lock"
flock 9

COMMON="-std=c17 -D_POSIX_C_SOURCE=200809L -DCIMBA_VERIF -fno-semantic-interposition -ftls-model=initial-exec -Wno-pedantic -I$REPO/include -I$REPO/src -I$OUT/gen"
case "$V" in
  rel) CC=gcc;   CFLAGS="-O3 -DNDEBUG -g1 $COMMON"; LDX="" ;;
  dbg) CC=gcc;   CFLAGS="-O1 -g $COMMON"; LDX="" ;;
  cov) CC=gcc;   CFLAGS="-O0 -g -DNDEBUG --coverage $COMMON"; LDX="--coverage" ;;
  san) CC=clang; CFLAGS="-O1 -g -DNDEBUG -fno-omit-frame-pointer -fsanitize=address,undefined,float-cast-overflow -fno-sanitize=alignment,null,object-size -fno-sanitize-recover=all $COMMON"; LDX="-fsanitize=address,undefined" ;;
  *) echo "unknown variant $V" >&2; exit 2 ;;
esac

libfp() { (cd "$REPO" && find src include codegen -type f \( -name '*.c' -o -name '*.h' -o -name '*.asm' -o -name '*.inc' \) ! -path '*/windows/*' -print0 | sort -z | xargs -0 sha1sum; echo "$CC $CFLAGS") | sha1sum | cut -d' ' -f1; }
simfp() { (cd "$HERE/sim" && find . -type f \( -name '*.c' -o -name '*.h' -o -name '*.asm' \) -print0 | sort -z | xargs -0 sha1sum; echo "$CC $CFLAGS") | sha1sum | cut -d' ' -f1; }

LFP="$(libfp)"
if [ ! -f "$OUT/libcimba.a" ] || [ "$(cat "$OUT/lib.fp" 2>/dev/null)" != "$LFP" ]; then
  rm -f "$OUT"/obj/*.o "$OUT/libcimba.a" "$OUT/lib.fp"
  # code generation (ziggurat tables), always plain gcc
  gcc -O2 -o "$OUT/gen/calc_exponential" "$REPO/codegen/calc_exponential.c" "$REPO/codegen/calc_utils.c" -lm
  gcc -O2 -o "$OUT/gen/calc_normal" "$REPO/codegen/calc_normal.c" "$REPO/codegen/calc_utils.c" -lm
  "$OUT/gen/calc_exponential" > "$OUT/gen/cmi_random_exp_zig.inc"
  "$OUT/gen/calc_normal" > "$OUT/gen/cmi_random_nor_zig.inc"
  ls "$REPO"/src/*.c "$REPO"/src/port/x86-64/linux/*.c | \
    xargs -P 16 -I{} sh -c "$CC $CFLAGS -c {} -o $OUT/obj/\$(basename {} .c).o"
  for a in "$REPO"/src/port/x86-64/linux/*.asm; do
    nasm -f elf64 "$a" -o "$OUT/obj/$(basename "$a" .asm)_asm.o"
  done
  ar rcs "$OUT/libcimba.a" "$OUT"/obj/*.o
  echo "$LFP" > "$OUT/lib.fp"
  rm -f "$OUT/sim.fp"
fi

SFP="$(simfp) $LFP"
if [ ! -x "$OUT/cimsim" ] || [ "$(cat "$OUT/sim.fp" 2>/dev/null)" != "$SFP" ]; then
  rm -f "$OUT"/sim/*.o "$OUT/cimsim" "$OUT/sim.fp"
  ls "$HERE"/sim/*.c | xargs -P 16 -I{} sh -c "$CC $CFLAGS -D_GNU_SOURCE -Wall -Wno-unused-function -I$HERE/sim -c {} -o $OUT/sim/\$(basename {} .c).o"
  for a in "$HERE"/sim/*.asm; do
    [ -f "$a" ] && nasm -f elf64 "$a" -o "$OUT/sim/$(basename "$a" .asm)_asm.o"
  done
  $CC $LDX -no-pie -Wl,-z,noexecstack -Wl,-Map="$OUT/cimsim.map" -o "$OUT/cimsim" "$OUT"/sim/*.o "$OUT/libcimba.a" -lm -lpthread \
     -Wl,--wrap=pthread_create,--wrap=pthread_join,--wrap=cmi_cpu_cores
  echo "$SFP" > "$OUT/sim.fp"
fi
echo "built $OUT/cimsim"
