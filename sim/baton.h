/* baton.h - real threads, parked and released one at a time by a seeded scheduler.
 * Only the baton holder runs; the order of releases is a pure function of the schedule seed. */
#ifndef VERIF_BATON_H
#define VERIF_BATON_H
#include <stdbool.h>
#include <stdint.h>
#define BATON_MAX 96
void baton_begin(uint64_t sched_seed, int switch_pct); /* activate: pthread_create/join are now managed */
void baton_end(void);                                  /* deactivate (all managed threads must be joined) */
bool baton_active(void);
int  baton_self(void);                                 /* managed thread index, -1 for the coordinator/main */
void baton_yield(void);                                /* yield point: the scheduler may hand the baton to another thread */
int  baton_spawn(void *(*fn)(void *), void *arg);      /* create a managed thread (parked) */
void baton_run_all(void);                              /* coordinator: schedule until every managed thread finished, then join them */
uint64_t baton_switches(void);
int  baton_nthreads(void);
void baton_set_cores(uint32_t n);                      /* value returned by the wrapped cmi_cpu_cores() */
#endif
