/* eng_procs.c - C04..C14: the dispatch loop belongs to the harness */
#include "procs.h"
#include <string.h>

#define EVBUDGET 8000

static void procs_run(const plan *p)
{
    mon_reset();
    world_build(p);
    const double t_begin = tnow();
    uint64_t budget = EVBUDGET;
    bool quiescent = false;
    while (g_nviol == 0) {
        if (budget-- == 0) { g_stats.budget = true; break; }
        mon_before_event();
        const double t0 = tnow();
        const bool more = cmb_event_execute_next();
        if (!more) { mon_boundary_commit(); quiescent = true; break; }
        if (tnow() > t0) mon_boundary_commit();         /* the previous instant is over */
        if (g_nviol) break;
        if (g_rec_on && g_nevt < MAXEVT && (g_nevt == 0 || g_evt[g_nevt - 1] != tnow())) g_evt[g_nevt++] = tnow();
        mon_after_event();
        if (g_nviol || W.stop_judging) break;
        mon_boundary_eval();
    }
    if (quiescent && g_nviol == 0 && !W.stop_judging) mon_quiescence();
    g_stats.simtime = (tnow() - t_begin < 1e200) ? tnow() - t_begin : 0.0;
    g_stats.nontrivial = g_stats.faults > 0;
    if (g_nviol == 0) world_teardown();
    else {
        /* after a violation the library state is not trusted: free the stacks, leave the rest */
        for (int i = 0; i < W.np; i++) if (PR[i].created) cmb_process_terminate(PR[i].pp);
        cmb_event_queue_terminate();
    }
}

/* ---------------------------------------------------------------- single-fault sweep */
typedef struct { int victim, stepk; int64_t delay, prio; int kind; int64_t arg;
                 int kind2; int64_t prio2, arg2; } placement;      /* kind2 != 0: a second fault on the same call in the same instant */
#define MAXPLACE 1200
static placement PL[MAXPLACE * 8];
static int npl;
static uint64_t pl_seed; static bool pl_valid; static plan pl_base; static char pl_cfg[128];

static bool guard_op(int op) { return op >= OP_ACQ && op <= OP_CWAIT; }

static void enumerate(uint64_t seed, const char *cfg)
{
    char c2[160];
    snprintf(c2, sizeof c2, "faults=0,%s", cfg);
    if (pl_valid) plan_free(&pl_base);
    plan_init(&pl_base, "procs", seed);
    procs_gen(&pl_base, seed, c2);
    /* fault-free base run with recording on; its own verdict is discarded here (it is placement #0 of the sweep) */
    const int nv0 = g_nviol; const uint64_t h0 = g_trace_hash; const runstats s0 = g_stats; const bool tr0 = g_trace_on;
    g_trace_on = false; g_rec_on = true; g_nrec = 0; g_nevt = 0;
    procs_run(&pl_base);
    g_rec_on = false; g_trace_on = tr0; g_nviol = nv0; g_trace_hash = h0; g_stats = s0;
    npl = 0;
    for (int r = 0; r < g_nrec; r++) {
        const callrec *c = &g_rec[r];
        const double tend = (c->t1 >= 0.0) ? c->t1 : (g_nevt ? g_evt[g_nevt - 1] : c->t0);
        /* instants in the window at which anything happened: the call instant, the next one, one in the middle, the return instant */
        double inst[4]; int ni = 0;
        inst[ni++] = c->t0;
        int first = -1, last = -1;
        for (int e = 0; e < g_nevt; e++) if (g_evt[e] > c->t0 && g_evt[e] <= tend) { if (first < 0) first = e; last = e; }
        if (first >= 0) { inst[ni++] = g_evt[first]; if (last > first + 1) inst[ni++] = g_evt[(first + last) / 2]; if (last > first) inst[ni++] = g_evt[last]; }
        int kinds[12], nk = 0;
        kinds[nk++] = 1; kinds[nk++] = 2; kinds[nk++] = 6; kinds[nk++] = 11; kinds[nk++] = 12;
        if (guard_op(c->op)) { kinds[nk++] = 3; kinds[nk++] = 4; }
        if (c->op == OP_WAITE) kinds[nk++] = 5;
        if (c->op == OP_YIELD) kinds[nk++] = 8;
        if (c->op == OP_CWAIT) kinds[nk++] = 9;
        const int64_t vp = (c->prio > -1000000 && c->prio < 1000000) ? c->prio : 0;
        for (int i = 0; i < ni; i++) {
            const double d4 = (inst[i] - c->t0) * 4.0;
            if (!(d4 >= 0.0 && d4 < 999.0) || d4 != (double)(int64_t)d4) continue;
            for (int k = 0; k < nk; k++) for (int sgn = -1; sgn <= 1; sgn += 2) {
                if (npl >= MAXPLACE * 8) break;
                placement *q = &PL[npl++];
                memset(q, 0, sizeof *q);
                q->victim = c->pid; q->stepk = c->stepk; q->delay = (int64_t)d4; q->prio = vp + sgn; q->kind = kinds[k];
                q->arg = (kinds[k] == 1) ? vp + sgn : (kinds[k] == 6) ? vp + 1 : (kinds[k] == 11 && sgn > 0) ? 4 : 0;
            }
            /* coincidences: two different causes for the same call in the same instant, in both orders
             * (the first one gets the higher event priority); on the call instant and on the return instant only */
            if (i == 0 || i == ni - 1) for (int k1 = 0; k1 < nk; k1++) for (int k2 = 0; k2 < nk; k2++) {
                if (k1 == k2 || npl >= MAXPLACE * 8) continue;
                if (kinds[k1] == 6 && kinds[k2] == 6) continue;
                placement *q = &PL[npl++];
                memset(q, 0, sizeof *q);
                q->victim = c->pid; q->stepk = c->stepk; q->delay = (int64_t)d4;
                q->kind = kinds[k1]; q->prio = vp + 2; q->arg = (kinds[k1] == 1) ? vp + 2 : (kinds[k1] == 6) ? vp + 1 : 0;
                q->kind2 = kinds[k2]; q->prio2 = vp + 1; q->arg2 = (kinds[k2] == 1) ? vp + 1 : (kinds[k2] == 6) ? vp - 1 : 0;
            }
        }
    }
    pl_seed = seed; pl_valid = true; snprintf(pl_cfg, sizeof pl_cfg, "%s", cfg);
}

static int procs_sweep(uint64_t seed, const char *cfg, int pick, plan *out)
{
    if (!pl_valid || pl_seed != seed || strcmp(pl_cfg, cfg) != 0) enumerate(seed, cfg);
    /* at most MAXPLACE placements per base program, by a fixed stride; placement 0 is the fault-free base itself */
    const int stride = (npl + MAXPLACE - 1) / MAXPLACE > 0 ? (npl + MAXPLACE - 1) / MAXPLACE : 1;
    const int n = 1 + (npl + stride - 1) / stride;
    if (pick < 0) return n;
    plan_init(out, "procs", mix64(seed, (uint64_t)pick + 1u));
    for (int i = 0; i < pl_base.n; i++) { pline *l = plan_add(out, pl_base.l[i].op, 0); *l = pl_base.l[i]; }
    if (pick > 0) {
        const placement *q = &PL[(pick - 1) * stride < npl ? (pick - 1) * stride : npl - 1];
        plan_add(out, "F", 6, (int64_t)q->victim, (int64_t)q->stepk, q->delay, q->prio, (int64_t)q->kind, q->arg);
        if (q->kind2) plan_add(out, "F", 6, (int64_t)q->victim, (int64_t)q->stepk, q->delay, q->prio2, (int64_t)q->kind2, q->arg2);
    }
    return n;
}

const engine eng_procs = {
    .sweep = procs_sweep,
    .name = "procs", .props = "C04 C05 C06 C07 C08 C09 C11 C12 C13 C14", .gen = procs_gen, .run = procs_run,
    .rule = "runs in which at least one fault (interrupt, stop, timer expiry aside, preemption, guard cancel/remove, event cancel, priority change) landed on a blocked operation",
};
