/* eng_procs.c - C04..C14: the dispatch loop belongs to the harness */
#include "procs.h"
#include <string.h>

#define EVBUDGET 30000

static void procs_run(const plan *p)
{
    mon_reset();
    world_build(p);
    const double t_begin = tnow();
    uint64_t budget = EVBUDGET;
    bool quiescent = false;
    while (g_nviol == 0) {
        if (budget-- == 0) { g_stats.budget = true; break; }
        mon_before_event();
        const double t0 = tnow();
        const bool more = cmb_event_execute_next();
        if (!more) { mon_boundary_commit(); quiescent = true; break; }
        if (tnow() > t0) mon_boundary_commit();         /* the previous instant is over */
        if (g_nviol) break;
        mon_after_event();
        if (g_nviol || W.stop_judging) break;
        mon_boundary_eval();
    }
    if (quiescent && g_nviol == 0 && !W.stop_judging) mon_quiescence();
    g_stats.simtime = (tnow() - t_begin < 1e200) ? tnow() - t_begin : 0.0;
    g_stats.nontrivial = g_stats.faults > 0;
    if (g_nviol == 0) world_teardown();
    else {
        /* after a violation the library state is not trusted: free the stacks, leave the rest */
        for (int i = 0; i < W.np; i++) if (PR[i].created) cmb_process_terminate(PR[i].pp);
        cmb_event_queue_terminate();
    }
}

const engine eng_procs = {
    .name = "procs", .props = "C04 C05 C06 C07 C08 C09 C11 C12 C13 C14", .gen = procs_gen, .run = procs_run,
    .rule = "runs in which at least one fault (interrupt, stop, timer expiry aside, preemption, guard cancel/remove, event cancel, priority change) landed on a blocked operation",
};
