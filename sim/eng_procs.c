#include "core.h"
static void g(plan *p, uint64_t seed, const char *cfg) { (void)p; (void)seed; (void)cfg; }
static void r(const plan *p) { (void)p; }
const engine eng_procs = { .name = "procs", .props = "", .gen = g, .run = r, .rule = "stub" };
