#include "core.h"
#include <stdarg.h>
#include <stdlib.h>
#include <string.h>

/* ---------------- PRNG ---------------- */
static uint64_t sm64(uint64_t *x)
{
    uint64_t z = (*x += 0x9e3779b97f4a7c15ull);
    z = (z ^ (z >> 30)) * 0xbf58476d1ce4e5b9ull;
    z = (z ^ (z >> 27)) * 0x94d049bb133111ebull;
    return z ^ (z >> 31);
}
uint64_t mix64(uint64_t a, uint64_t b)
{
    uint64_t x = a ^ (b * 0xd6e8feb86659fd93ull) ^ 0x1234567887654321ull;
    (void)sm64(&x);
    return sm64(&x);
}
void vrng_seed(vrng *r, uint64_t seed)
{
    uint64_t x = seed;
    for (int i = 0; i < 4; i++) r->s[i] = sm64(&x);
}
static inline uint64_t rotl(uint64_t x, int k) { return (x << k) | (x >> (64 - k)); }
uint64_t vrng_next(vrng *r)
{
    const uint64_t result = rotl(r->s[1] * 5, 7) * 9;
    const uint64_t t = r->s[1] << 17;
    r->s[2] ^= r->s[0]; r->s[3] ^= r->s[1]; r->s[1] ^= r->s[2]; r->s[0] ^= r->s[3];
    r->s[2] ^= t; r->s[3] = rotl(r->s[3], 45);
    return result;
}
uint64_t vrng_below(vrng *r, uint64_t n)
{
    if (n <= 1) return 0;
    /* rejection sampling, unbiased */
    const uint64_t lim = UINT64_MAX - (UINT64_MAX % n);
    uint64_t v;
    do { v = vrng_next(r); } while (v >= lim);
    return v % n;
}
int64_t vrng_range(vrng *r, int64_t lo, int64_t hi)
{
    if (hi <= lo) return lo;
    return lo + (int64_t)vrng_below(r, (uint64_t)(hi - lo) + 1u);
}
bool vrng_chance(vrng *r, unsigned num, unsigned den)
{
    return vrng_below(r, den) < num;
}

/* ---------------- plan ---------------- */
void plan_init(plan *p, const char *engine, uint64_t seed)
{
    memset(p, 0, sizeof *p);
    snprintf(p->engine, sizeof p->engine, "%s", engine);
    p->seed = seed;
}
void plan_free(plan *p) { free(p->l); p->l = NULL; p->n = p->cap = 0; }
static pline *plan_slot(plan *p)
{
    if (p->n == p->cap) {
        p->cap = p->cap ? p->cap * 2 : 64;
        p->l = realloc(p->l, (size_t)p->cap * sizeof(pline));
        if (!p->l) die("oom");
    }
    pline *l = &p->l[p->n++];
    memset(l, 0, sizeof *l);
    return l;
}
pline *plan_add(plan *p, const char *op, int n, ...)
{
    pline *l = plan_slot(p);
    snprintf(l->op, sizeof l->op, "%s", op);
    l->n = n;
    va_list ap; va_start(ap, n);
    for (int i = 0; i < n && i < PLAN_MAXARGS; i++) l->a[i] = va_arg(ap, int64_t);
    va_end(ap);
    return l;
}
void plan_write(const plan *p, FILE *fp)
{
    fprintf(fp, "PLAN %s %" PRIu64 "\n", p->engine, p->seed);
    for (int i = 0; i < p->n; i++) {
        const pline *l = &p->l[i];
        fprintf(fp, "%s", l->op);
        for (int k = 0; k < l->n; k++) fprintf(fp, " %" PRId64, l->a[k]);
        fputc('\n', fp);
    }
}
bool plan_read(plan *p, FILE *fp)
{
    char buf[512];
    bool have = false;
    memset(p, 0, sizeof *p);
    while (fgets(buf, sizeof buf, fp)) {
        char *s = buf;
        while (*s == ' ' || *s == '\t') s++;
        if (*s == '#' || *s == '\n' || *s == 0) continue;
        char *save = NULL;
        char *tok = strtok_r(s, " \t\r\n", &save);
        if (!tok) continue;
        if (!have) {
            if (strcmp(tok, "PLAN") != 0) return false;
            char *e = strtok_r(NULL, " \t\r\n", &save);
            char *sd = strtok_r(NULL, " \t\r\n", &save);
            if (!e) return false;
            snprintf(p->engine, sizeof p->engine, "%s", e);
            p->seed = sd ? strtoull(sd, NULL, 10) : 0;
            have = true;
            continue;
        }
        pline *l = plan_slot(p);
        snprintf(l->op, sizeof l->op, "%s", tok);
        while ((tok = strtok_r(NULL, " \t\r\n", &save)) != NULL && l->n < PLAN_MAXARGS) {
            l->a[l->n++] = strtoll(tok, NULL, 10);
        }
    }
    return have;
}

/* ---------------- trace ---------------- */
bool g_trace_on = false;
FILE *g_trace_fp = NULL;
uint64_t g_trace_hash = 0;
int64_t dbits(double d) { int64_t v; memcpy(&v, &d, sizeof v); return v; }
void tr(const char *tag, int n, ...)
{
    uint64_t h = g_trace_hash;
    for (const char *c = tag; *c; c++) h = (h ^ (uint64_t)(unsigned char)*c) * 0x100000001b3ull;
    int64_t v[8];
    va_list ap; va_start(ap, n);
    for (int i = 0; i < n && i < 8; i++) {
        v[i] = va_arg(ap, int64_t);
        h = (h ^ (uint64_t)v[i]) * 0x100000001b3ull;
        h ^= h >> 29;
    }
    va_end(ap);
    g_trace_hash = h;
    if (g_trace_on) {
        FILE *fp = g_trace_fp ? g_trace_fp : stdout;
        fprintf(fp, "T %s", tag);
        for (int i = 0; i < n && i < 8; i++) fprintf(fp, " %" PRId64, v[i]);
        fputc('\n', fp);
    }
}

/* ---------------- violations ---------------- */
violation g_viol[MAXVIOL];
int g_nviol = 0;
const char *g_only_prop = NULL;
void viol(const char *prop, const char *sig, const char *fmt, ...)
{
    if (g_only_prop && strstr(g_only_prop, prop) == NULL) return;
    /* one entry per (prop, sig) per run */
    for (int i = 0; i < g_nviol; i++)
        if (!strcmp(g_viol[i].prop, prop) && !strcmp(g_viol[i].sig, sig)) return;
    if (g_nviol >= MAXVIOL) return;
    violation *v = &g_viol[g_nviol++];
    snprintf(v->prop, sizeof v->prop, "%s", prop);
    snprintf(v->sig, sizeof v->sig, "%s", sig);
    va_list ap; va_start(ap, fmt);
    vsnprintf(v->msg, sizeof v->msg, fmt, ap);
    va_end(ap);
    for (char *c = v->msg; *c; c++) if (*c == '\n') *c = ' ';
    TR1("VIOL", g_nviol);
}

/* ---------------- counters ---------------- */
counter g_ctr[MAXCOUNTERS];
int g_nctr = 0;
uint64_t *ctr(const char *name)
{
    for (int i = 0; i < g_nctr; i++) if (!strcmp(g_ctr[i].name, name)) return &g_ctr[i].v;
    if (g_nctr >= MAXCOUNTERS) die("too many counters");
    g_ctr[g_nctr].name = strdup(name);
    g_ctr[g_nctr].v = 0;
    return &g_ctr[g_nctr++].v;
}
void ctr_reset(void) { for (int i = 0; i < g_nctr; i++) g_ctr[i].v = 0; }

runstats g_stats;

double dur_of(int64_t code)
{
    if (code < 0) code = -code;
    if (code < 1000) return (double)code / 4.0;
    switch (code) {
        case 1000: return 1e300;
        case 1001: return 1e-300;
        case 1002: return 4503599627370496.0;      /* 2^52 */
        case 1003: return 1e15 + 0.5;
        case 1004: return 0.1;                        /* not exact in binary on purpose */
        case 1005: return 1e-9;
        default:   return (double)(code - 1000);
    }
}
int64_t prio_of(int64_t code)
{
    if (code >= 1000001) return INT64_MAX - (code - 1000001);
    if (code <= -1000001) return INT64_MIN + (-code - 1000001);
    return code;
}

void die(const char *fmt, ...)
{
    va_list ap; va_start(ap, fmt);
    fprintf(stderr, "cimsim: ");
    vfprintf(stderr, fmt, ap);
    fputc('\n', stderr);
    va_end(ap);
    exit(2);
}
