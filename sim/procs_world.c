/* procs_world.c - builds the world from a plan, interprets process scripts, fires faults */
#include "procs.h"
#include <stdlib.h>
#include <string.h>
#include <xmmintrin.h>

#if defined(__has_feature)
#  if __has_feature(address_sanitizer)
#    define VERIF_ASAN 1
#  endif
#endif
#ifdef __SANITIZE_ADDRESS__
#  define VERIF_ASAN 1
#endif
#ifdef VERIF_ASAN
void __asan_unpoison_memory_region(void const volatile *addr, size_t size);
#endif

extern uint64_t shim_bad;
extern void *switch_shim(void *(*fn)(void *, void *), void *a1, void *a2, uint64_t pat);

world W;
proc PR[MAXP];
bool g_rec_on; callrec g_rec[MAXCALLREC]; int g_nrec; double g_evt[MAXEVT]; int g_nevt;
const plan *PLAN;

const char *const opname[OP_NOPS] = { "none", "hold", "yield", "wait-process", "wait-event", "resource-acquire",
    "resource-preempt", "pool-acquire", "pool-preempt", "buffer-put", "buffer-get", "queue-put", "queue-get",
    "pqueue-put", "pqueue-get", "condition-wait", "wait-timer-event" };

/* processes live in a harness arena: relative address order is a controlled schedule input */
static struct cmb_process arena[MAXP] __attribute__((aligned(64)));

typedef struct { int victim, stepk; int64_t delay, prio; int kind; int64_t arg; bool armed, fired; int line; } fault;
static fault faults[MAXFAULT];
static int nfaults;

double tnow(void) { return cmb_time(); }
int proc_of(const struct cmb_process *pp)
{
    for (int i = 0; i < W.np; i++) if (PR[i].pp == pp) return i;
    return -1;
}

cause *cause_add(proc *pr, int kind, int64_t value, double due, bool must)
{
    if (pr->ncs >= MAXCAUSE) {
        /* compact: drop delivered/dead causes */
        int k = 0;
        for (int i = 0; i < pr->ncs; i++) if (pr->cs[i].state == CS_ARMED || pr->cs[i].state == CS_MAYBE) {
            for (int t = 0; t < pr->ntimers; t++) if (pr->timer_cause[t] == i) pr->timer_cause[t] = k;
            pr->cs[k++] = pr->cs[i];
        } else {
            for (int t = 0; t < pr->ntimers; t++) if (pr->timer_cause[t] == i) pr->timer_cause[t] = -1;
        }
        pr->ncs = k;
        if (pr->ncs >= MAXCAUSE) { W.stop_judging = true; return &pr->cs[MAXCAUSE - 1]; }
    }
    cause *c = &pr->cs[pr->ncs++];
    memset(c, 0, sizeof *c);
    c->kind = kind; c->state = CS_ARMED; c->value = value; c->due = due; c->must = must; c->born_seq = W.seq; c->ref = -1;
    return c;
}

uint64_t true_state(int kind, int idx)
{
    switch (kind) {
        case 0: return cmb_resource_in_use(W.res[idx]);
        case 1: return cmb_resourcepool_in_use(W.pool[idx]);
        case 2: return cmb_buffer_level(W.buf[idx]);
        case 3: return cmb_objectqueue_length(W.oq[idx]);
        default: return cmb_priorityqueue_length(W.pq[idx]);
    }
}

/* ------------------------------------------------------------------ harness events */
static void hev_action(void *subject, void *object)
{
    /* the event's subject is the harness record itself or, object-style, a process the event "belongs to" (then the record is the object) */
    hevent *h = object ? object : subject;
    const int e = (int)(h - W.hev);
    h->pending = false; h->executed = true; h->done_time = tnow();
    TR2("hev", e, dbits(tnow()));
    for (int i = 0; i < W.np; i++)
        if (PR[i].op == OP_WAITE && PR[i].obj == e && !PR[i].finished) {
            cause *c = cause_add(&PR[i], CK_EV, CMB_PROCESS_SUCCESS, tnow(), true); c->ref = e;
        }
}

/* events of the harness that merely name process pp as their subject: they are the application's, not wake-ups of pp */
uint64_t hev_count_for_subject(const void *pp) { return cmb_event_pattern_count(hev_action, pp, CMB_ANY_OBJECT); }

/* C01 among processes: an event scheduled by the application and cancelled by nobody stays scheduled until it runs */
void hev_check_vanished(int e)
{
    hevent *h = &W.hev[e];
    if (!h->pending || h->handle == 0 || cmb_event_is_scheduled(h->handle)) return;
    viol("C01", h->subj_is_proc ? "event-vanished/subject-is-a-process" : "event-vanished",
         "harness event %d (handle %" PRIu64 ", due t=%g%s) is no longer scheduled at t=%g: it did not run and nobody cancelled it",
         e, h->handle, h->time, h->subj_is_proc ? ", its subject is a process" : "", tnow());
    h->pending = false; h->cancelled = true; h->done_time = tnow();
    for (int i = 0; i < W.np; i++)
        if (PR[i].op == OP_WAITE && PR[i].obj == e && !PR[i].finished) { cause *c = cause_add(&PR[i], CK_EV, CMB_PROCESS_CANCELLED, tnow(), false); c->ref = e; }
}

static void hev_cancel(int e)
{
    hevent *h = &W.hev[e];
    if (h->handle == 0) return;
    hev_check_vanished(e);
    const bool r = cmb_event_cancel(h->handle);
    TR2("hev-cancel", e, r);
    if (r != h->pending)
        viol("C01", "cancel-retval", "cancel of harness event %d returned %d, model pending=%d", e, r, h->pending);
    if (h->pending) {
        h->pending = false; h->cancelled = true; h->done_time = tnow();
        for (int i = 0; i < W.np; i++)
            if (PR[i].op == OP_WAITE && PR[i].obj == e && !PR[i].finished) {
                cause *c = cause_add(&PR[i], CK_EV, CMB_PROCESS_CANCELLED, tnow(), true); c->ref = e;
                PROBE("fault.event_cancel.on_wait-event"); g_stats.faults++;
            }
    }
}

static void hev_schedule(int e, double t, int64_t prio, int64_t subjsel)
{
    hevent *h = &W.hev[e];
    hev_check_vanished(e);
    if (h->pending) return;
    if (!(t >= tnow())) t = tnow();
    memset(h, 0, sizeof *h);
    if (subjsel < 0) subjsel = -subjsel;
    if (subjsel > 0 && W.np > 0 && PR[(subjsel - 1) % W.np].created) {
        h->handle = cmb_event_schedule(hev_action, PR[(subjsel - 1) % W.np].pp, h, t, prio);
        h->subj_is_proc = true;
        PROBE("hev.subject_is_a_process");
    } else h->handle = cmb_event_schedule(hev_action, h, NULL, t, prio);
    h->pending = true; h->time = t; h->prio = prio;
    TR3("hev-sched", e, dbits(t), prio);
}

/* ------------------------------------------------------------------ operations shared by scripts and faults */
int guard_of_wait(const proc *pr)
{
    /* index into W.guards of the guard the in-flight op of pr would wait in, -1 if none */
    int cls = -1;
    switch (pr->op) {
        case OP_ACQ: case OP_PRE: cls = GC_RES; break;
        case OP_PACQ: case OP_PPRE: cls = GC_POOL; break;
        case OP_BPUT: cls = GC_BUF_REAR; break;
        case OP_BGET: cls = GC_BUF_FRONT; break;
        case OP_QPUT: cls = GC_OQ_REAR; break;
        case OP_QGET: cls = GC_OQ_FRONT; break;
        case OP_KPUT: cls = GC_PQ_REAR; break;
        case OP_KGET: cls = GC_PQ_FRONT; break;
        case OP_CWAIT: cls = GC_COND; break;
        default: return -1;
    }
    for (int g = 0; g < W.nguards; g++) if (W.guards[g].cls == cls && W.guards[g].idx == pr->obj) return g;
    return -1;
}

static void count_landing(const char *kind, const proc *victim)
{
    static char names[16][OP_NOPS][48];
    static const char *kinds[16];
    int k = 0;
    while (k < 16 && kinds[k] && strcmp(kinds[k], kind)) k++;
    if (k == 16) return;
    if (!kinds[k]) kinds[k] = kind;
    const int op = victim->finished ? OP_NONE : victim->op;
    if (!names[k][op][0]) snprintf(names[k][op], sizeof names[k][op], "fault.%s.on_%s", kind, victim->finished ? "finished" : opname[op]);
    (*ctr(names[k][op]))++;
    if (op != OP_NONE) g_stats.faults++;
}

static void do_interrupt(int j, int64_t prio)
{
    proc *t = &PR[j];
    if (!t->started || t->finished) return;
    const int64_t sig = 1000 + (int64_t)(W.sigctr++);
    count_landing("interrupt", t);
    cause_add(t, CK_INTR, sig, tnow(), false);
    TR3("intr", j, sig, prio);
    cmb_process_interrupt(t->pp, sig, prio);
}

static void do_stop(int j)
{
    proc *t = &PR[j];
    if (!t->created) return;
    if (!t->started && !t->finished) return;        /* not begun: leave it alone */
    void *val = (void *)(uintptr_t)(0x90000 + (uintptr_t)j * 256u + (uintptr_t)(W.sigctr++ & 0xff));
    if (t->finished) { cmb_process_stop(t->pp, val); return; }      /* documented no-op with a warning */
    count_landing("stop", t);
    { const int g = guard_of_wait(t); if (g >= 0 && !cmi_hashheap_is_enqueued(&W.guards[g].g->priority_queue, (uint64_t)(uintptr_t)t->pp)) PROBE("probe.grant_then_stop"); }
    TR1("stop", j);
    proc_end(t, END_STOP, val);
    t->named_this_event = true;
    cmb_process_stop(t->pp, val);
}

static void do_gcancel(int g, int j, bool resume)
{
    if (g < 0 || g >= W.nguards) return;
    proc *t = &PR[j];
    if (!t->created) return;
    const bool waiting = cmi_hashheap_is_enqueued(&W.guards[g].g->priority_queue, (uint64_t)(uintptr_t)t->pp);
    bool r;
    if (W.guards[g].cls == GC_COND) {
        r = resume ? cmb_condition_cancel(W.cond[W.guards[g].idx], t->pp) : cmb_condition_remove(W.cond[W.guards[g].idx], t->pp);
    } else {
        r = resume ? cmb_resourceguard_cancel(W.guards[g].g, t->pp) : cmb_resourceguard_remove(W.guards[g].g, t->pp);
    }
    TR4(resume ? "gcancel" : "gremove", g, j, r, waiting);
    if (r != waiting)
        viol(W.guards[g].cls == GC_COND ? "C13" : "C06", "cancel-retval", "guard %s of process %d returned %d, process waiting=%d",
             resume ? "cancel" : "remove", j, r, waiting);
    if (waiting) {
        count_landing(resume ? "guard_cancel" : "guard_remove", t);
        t->named_this_event = true;
        if (resume) { cause *c = cause_add(t, CK_GCANCEL, CMB_PROCESS_CANCELLED, tnow(), true); c->ref = W.guards[g].cls; }
    }
}

static void do_start(int j)
{
    proc *t = &PR[j];
    if (!t->created || t->start_pending) return;
    if (t->started && !t->finished) return;
    if (t->gen >= 4) return;                          /* bounded runs: at most three restarts per process */
#ifdef VERIF_ASAN
    if (t->started) __asan_unpoison_memory_region(t->pp->core.stack, CMB_PROCESS_STACK_SIZE);
#endif
    if (t->finished) { PROBE("fault.restart"); }
    t->start_pending = true;
    TR1("start", j);
    cmb_process_start(t->pp);
}

static void do_prio(int j, int64_t prio)
{
    proc *t = &PR[j];
    if (!t->created) return;
    if (t->op != OP_NONE && !t->finished) count_landing("priority_change", t);
    TR2("prio", j, prio);
    t->prio_touched_this_event = true;
    t->prio_changes++;
    cmb_process_priority_set(t->pp, prio);
}

static void do_resume(int j)
{
    proc *t = &PR[j];
    if (t->started && t->finished && !t->start_pending && t->endkind == END_STOP && t->ended_in_op == OP_YIELD) {
        /* stopped by somebody while it was yielding: whoever was going to resume it cannot know.  "If something else has ended the
         * yield by the time the event runs, the signal is dropped" (cmb_process.h): nothing may come of it */
        PROBE("c09.resume_sent_to_process_stopped_in_its_yield");
        if (t->late_resume_n == 0 || t->late_resume_t != tnow()) { t->late_resume_t = tnow(); t->late_resume_n = 0; }
        const int64_t lsig = 3000 + (int64_t)(W.sigctr++);
        if (t->late_resume_n < 4) t->late_sig[t->late_resume_n] = lsig;
        t->late_resume_n++;
        cmb_process_resume(t->pp, lsig);
        return;
    }
    if (!t->started || t->finished || t->op != OP_YIELD) return;
    /* the tutorials resume yielded processes with the success code: do that too, when no other resume is on its way to the
     * same process in this instant (a second one would reach its next call, where 0 cannot be told from the call's own success) */
    bool other = false;
    for (int i = 0; i < t->ncs; i++) if (t->cs[i].kind == CK_RESUME && t->cs[i].state == CS_ARMED && t->cs[i].due == tnow()) other = true;
    int64_t sig = 3000 + (int64_t)(W.sigctr++);
    if (!other && (sig % 4) == 0) { sig = CMB_PROCESS_SUCCESS; PROBE("c04.resume_with_success_code"); }
    cause_add(t, CK_RESUME, sig, tnow(), false);
    TR2("resume", j, sig);
    cmb_process_resume(t->pp, sig);
}

static void do_csignal(int c)
{
    if (c < 0 || c >= W.ncond) return;
    TR1("csignal", c);
    extern void mon_explicit_signal_begin(int c);
    extern void mon_explicit_signal_end(int c);
    mon_explicit_signal_begin(c);
    (void)cmb_condition_signal(W.cond[c]);
    mon_explicit_signal_end(c);
}

static void do_kcancel(int k, uint64_t hsel)
{
    if (k < 0 || k >= W.npq || W.pq_nh[k] == 0) return;
    const uint64_t h = W.pq_handles[k][hsel % (uint64_t)W.pq_nh[k]];
    int pos = -1;
    for (int i = 0; i < W.pqn[k]; i++) if (W.pqm[k][i].handle == h) pos = i;
    const bool r = cmb_priorityqueue_cancel(W.pq[k], h);
    TR3("kcancel", k, h, r);
    if (r != (pos >= 0)) viol("C12", "pq-cancel-retval", "priorityqueue_cancel(%" PRIu64 ") returned %d, model queued=%d", h, r, pos >= 0);
    if (pos >= 0) {
        memmove(&W.pqm[k][pos], &W.pqm[k][pos + 1], (size_t)(W.pqn[k] - pos - 1) * sizeof(qitem)); W.pqn[k]--;
        PROBE("pq.cancel_queued");
    }
}

/* timers handled by somebody else than their process (the header: "pp: usually the calling process itself") */
static void do_foreign_timer(int j, int what, int64_t arg)
{
    proc *t = &PR[j];
    if (!t->started || t->finished) return;
    if (arg < 0) arg = -arg;
    if (what == 0) {                                   /* add */
        if (t->ntimers >= MAXTIMERS) return;
        const double d = dur_of(arg % 13);
        const bool zero = (arg / 13) % 8 == 7;
        const int64_t sig = zero ? CMB_PROCESS_SUCCESS : 2000 + (int64_t)(W.sigctr++);
        count_landing("foreign_timer_add", t);
        if (zero) PROBE("timer.signal_zero");
        const uint64_t h = cmb_process_timer_add(t->pp, d, sig);
        cause *c = cause_add(t, CK_TIMER, sig, tnow() + d, !zero); c->handle = h;
        t->timer_handle[t->ntimers] = h; t->timer_cause[t->ntimers] = (int)(c - t->cs); t->ntimers++;
        TR3("ftimer", j, sig, dbits(c->due));
    } else if (what == 1) {                            /* clear all */
        int armed = 0;
        for (int i = 0; i < t->ncs; i++) if (t->cs[i].kind == CK_TIMER && (t->cs[i].state == CS_ARMED || t->cs[i].state == CS_MAYBE)) { t->cs[i].state = CS_DEAD; armed++; }
        if (armed) count_landing("foreign_timers_clear", t);
        cmb_process_timers_clear(t->pp);
        TR2("ftclear", j, armed);
    } else {                                           /* cancel one */
        if (t->ntimers == 0) return;
        const int k = (int)((uint64_t)arg % (uint64_t)t->ntimers);
        const int ci = t->timer_cause[k];
        const bool armed = ci >= 0 && (t->cs[ci].state == CS_ARMED || t->cs[ci].state == CS_MAYBE);
        if (armed) { t->cs[ci].state = CS_DEAD; count_landing("foreign_timer_cancel", t); }
        (void)cmb_process_timer_cancel(t->pp, t->timer_handle[k]);
        TR3("ftcancel", j, k, armed);
    }
}

/* ------------------------------------------------------------------ faults */
static void fault_action(void *subject, void *object)
{
    (void)object;
    fault_fire((int)((fault *)subject - faults));
}

uint64_t g_harness_activity;

void fault_fire(int fi)
{
    fault *f = &faults[fi];
    g_harness_activity++;
    if (f->fired) return;
    f->fired = true;
    if (f->victim < 0 || f->victim >= W.np) return;
    proc *v = &PR[f->victim];
    TR3("fault", fi, f->kind, f->victim);
    switch (f->kind) {
        case 1: do_interrupt(f->victim, prio_of(f->arg)); break;
        case 2: do_stop(f->victim); break;
        case 3: case 4: { const int g = guard_of_wait(v); if (g >= 0 && !v->finished) do_gcancel(g, f->victim, f->kind == 3); break; }
        case 5: if (v->op == OP_WAITE && !v->finished) hev_cancel(v->obj); break;
        case 6: do_prio(f->victim, prio_of(f->arg)); break;
        case 7: do_start(f->victim); break;
        case 8: do_resume(f->victim); break;
        case 9: for (int c = 0; c < W.ncond; c++) do_csignal(c); break;
        case 10: if (W.npq > 0) do_kcancel((int)((uint64_t)f->arg % (uint64_t)W.npq), (uint64_t)f->arg / 7u); break;
        case 11: do_foreign_timer(f->victim, 0, f->arg); break;
        case 12: do_foreign_timer(f->victim, 1, f->arg); break;
        case 13: do_foreign_timer(f->victim, 2, f->arg); break;
        default: break;
    }
}

static void arm_faults(proc *pr, int stepk)
{
    for (int i = 0; i < nfaults; i++) {
        fault *f = &faults[i];
        if (f->victim != pr->id || f->stepk != stepk || f->armed) continue;
        f->armed = true;
        (void)cmb_event_schedule(fault_action, f, NULL, tnow() + dur_of(f->delay), prio_of(f->prio));
    }
}

/* ------------------------------------------------------------------ process end (model side) */
void proc_end(proc *pr, int endkind, void *val)
{
    extern void mon_fold_buffer(proc *pr);
    mon_fold_buffer(pr);
    pr->finished = true; pr->endkind = endkind; pr->exitv = val; pr->end_time = tnow(); pr->end_seq = W.seq;
    pr->ended_in_op = pr->op;
    if (pr->op != OP_NONE) {
        static char nm[OP_NOPS][40];
        if (!nm[pr->op][0]) snprintf(nm[pr->op], sizeof nm[pr->op], "end.while_in_%s", opname[pr->op]);
        (*ctr(nm[pr->op]))++;
    }
    pr->op = OP_NONE;
    for (int i = 0; i < pr->ncs; i++) if (pr->cs[i].state == CS_ARMED || pr->cs[i].state == CS_MAYBE) pr->cs[i].state = CS_DEAD;
    pr->ntimers = 0;
    bool held = false;
    for (int r = 0; r < W.nres; r++) if (pr->holds_res[r]) { pr->holds_res[r] = false; if (W.res_holder[r] == pr->id) W.res_holder[r] = -1; held = true; }
    for (int p = 0; p < W.npool; p++) if (pr->pool_held[p]) { pr->pool_held[p] = 0; held = true; }
    if (held) PROBE("end.while_holding");
    int nw = 0;
    for (int i = 0; i < W.np; i++) {
        proc *w = &PR[i];
        if (w != pr && !w->finished && w->op == OP_WAITP && w->obj == pr->id) {
            const int64_t v = (endkind == END_STOP || endkind == END_STOPSELF) ? CMB_PROCESS_STOPPED : CMB_PROCESS_SUCCESS;
            cause *c = cause_add(w, CK_PEND, v, tnow(), true); c->ref = pr->id; nw++;
        }
    }
    if (nw) PROBE("end.with_waiters");
    if (nw >= 9) PROBE("end.with_ge9_waiters");
    TR3("end", pr->id, endkind, (int64_t)(uintptr_t)val);
}

/* ------------------------------------------------------------------ blocking-call bracket */
static void call_begin(proc *pr, int op, int obj, int64_t arg)
{
    pr->op = op; pr->obj = obj; pr->arg = arg; pr->call_t = tnow(); pr->callseq = ++W.sigctr; pr->call_step = pr->pc - 1;
    pr->victim_in_call = false; pr->cond_true_seen = false;
    TR4("call", pr->id, op, obj, arg);
    extern void mon_call_begin(proc *pr);
    mon_call_begin(pr);
    if (g_rec_on && g_nrec < MAXCALLREC && pr->gen == 1) {
        callrec *c = &g_rec[g_nrec++];
        c->pid = pr->id; c->stepk = pr->pc - 1; c->op = op; c->t0 = tnow(); c->t1 = -1.0; c->prio = pr->pp->priority;
        pr->arg = pr->arg;
    }
    arm_faults(pr, pr->pc - 1);
}

static void call_end(proc *pr, int64_t ret)
{
    pr->ran_this_event = true;
    g_harness_activity++;
    if (g_rec_on && pr->gen == 1)
        for (int k = g_nrec - 1; k >= 0; k--) if (g_rec[k].pid == pr->id && g_rec[k].stepk == pr->call_step) { if (g_rec[k].t1 < 0.0) g_rec[k].t1 = tnow(); break; }
    TR4("ret", pr->id, pr->op, ret, dbits(tnow()));
    mon_call_ret(pr, ret);
    pr->op = OP_NONE;
}

static void *w_hold(void *dp, void *outp) { *(int64_t *)outp = cmb_process_hold(*(double *)dp); return NULL; }
static void *w_yield(void *unused, void *outp) { (void)unused; *(int64_t *)outp = cmb_process_yield(); return NULL; }

static uint64_t amount_of(int64_t code, uint64_t cap)
{
    if (code < 0) code = -code;
    switch (code) {
        case 100: return (cap == CMB_UNLIMITED) ? 1000 : cap + 1;
        case 101: return UINT64_C(1) << 63;
        case 102: return UINT64_MAX;
        case 103: return (cap == CMB_UNLIMITED) ? 7 : cap;
        case 104: return (UINT64_C(1) << 63) - 5u;
        case 105: return UINT64_C(1) << 62;
        case 106: return UINT64_MAX - 10u;
        case 107: return (UINT64_C(1) << 63) + 3u;
        default:  return (uint64_t)(code % 8);
    }
}

static bool pred_eval_raw(const predspec *ps)
{
    switch (ps->kind) {
        case PR_VAR_GE: return W.var[ps->a % MAXVAR] >= ps->b;
        case PR_RES_FREE: return W.nres > 0 && cmb_resource_available(W.res[ps->a % W.nres]) == 1;
        case PR_POOL_AVAIL_GE: return W.npool > 0 && cmb_resourcepool_available(W.pool[ps->a % W.npool]) >= (uint64_t)(ps->b < 1 ? 1 : ps->b);
        case PR_BUF_LEVEL_GE: return W.nbuf > 0 && cmb_buffer_level(W.buf[ps->a % W.nbuf]) >= (uint64_t)(ps->b < 1 ? 1 : ps->b);
        case PR_TRUE: return true;
        case PR_OQ_LEN_GE: return W.noq > 0 && cmb_objectqueue_length(W.oq[ps->a % W.noq]) >= (uint64_t)(ps->b < 1 ? 1 : ps->b);
        case PR_BUF_SPACE_GE: return W.nbuf > 0 && cmb_buffer_space(W.buf[ps->a % W.nbuf]) >= (uint64_t)(ps->b < 1 ? 1 : ps->b);
        default: return false;
    }
}
static predspec predspecs[MAXP];
bool pred_now(int pid) { return pred_eval_raw(&predspecs[pid]); }
int pred_kind_of(int pid, int *a) { *a = predspecs[pid].a; return predspecs[pid].kind; }
static bool pred_fn(const struct cmb_condition *cnd, const struct cmb_process *prc, const void *ctx)
{
    (void)cnd;
    const predspec *ps = ctx;
    const int pid = (int)(ps - predspecs);
    const bool r = pred_eval_raw(ps);
    extern void mon_pred_eval(int pid, const struct cmb_process *prc, bool result);
    mon_pred_eval(pid, prc, r);
    return r;
}

static void exec_step(proc *pr, const pline *l)
{
    const int np = W.np;
    int64_t ret;
    g_stats.events++;
    g_harness_activity++;
    if (pis(l, "HOLD")) {
        double d = dur_of(pa(l, 1));
        call_begin(pr, OP_HOLD, 0, pa(l, 1));
        pr->hold_due = tnow() + d;
        cause *c = cause_add(pr, CK_HOLD, CMB_PROCESS_SUCCESS, pr->hold_due, false); c->callseq = pr->callseq;
        const uint64_t pat = 0xABCD000000000000ull | ((uint64_t)pr->id << 32) | (pr->callseq & 0xffffff) << 4;
        switch_shim(w_hold, &d, &ret, pat);
        if (shim_bad) { viol("C03", "callee-saved-register", "process %d: callee-saved register %" PRIu64 " changed across hold", pr->id, shim_bad); shim_bad = 0; }
        call_end(pr, ret);
    } else if (pis(l, "YIELD")) {
        call_begin(pr, OP_YIELD, 0, 0);
        const uint64_t pat = 0xABCE000000000000ull | ((uint64_t)pr->id << 32) | (pr->callseq & 0xffffff) << 4;
        switch_shim(w_yield, NULL, &ret, pat);
        if (shim_bad) { viol("C03", "callee-saved-register", "process %d: callee-saved register %" PRIu64 " changed across yield", pr->id, shim_bad); shim_bad = 0; }
        call_end(pr, ret);
    } else if (pis(l, "TADD") || pis(l, "TSET")) {
        if (pr->ntimers >= MAXTIMERS) return;
        const double d = dur_of(pa(l, 1));
        const bool zero = pa(l, 2) == 1;                /* a timer that carries the success code */
        const int64_t sig = zero ? CMB_PROCESS_SUCCESS : 2000 + (int64_t)(W.sigctr++);
        if (zero) PROBE("timer.signal_zero");
        if (pis(l, "TSET")) {
            for (int i = 0; i < pr->ncs; i++) if (pr->cs[i].kind == CK_TIMER && (pr->cs[i].state == CS_ARMED || pr->cs[i].state == CS_MAYBE)) pr->cs[i].state = CS_DEAD;
        }
        const uint64_t h = pis(l, "TSET") ? cmb_process_timer_set(pr->pp, d, sig) : cmb_process_timer_add(pr->pp, d, sig);
        cause *c = cause_add(pr, CK_TIMER, sig, tnow() + d, !zero); c->handle = h;      /* a success code that hits a hold or a wait is not for it: it may vanish */
        pr->timer_handle[pr->ntimers] = h; pr->timer_cause[pr->ntimers] = (int)(c - pr->cs); pr->ntimers++;
        TR3("timer", pr->id, sig, dbits(c->due));
    } else if (pis(l, "TBURST")) {
        /* growth template: thousands of armed timers in one process (the awaitable tag pool crosses 64 chunks at 8192 tags),
         * all cleared again before the process goes on */
        int64_t n = pa(l, 1); if (n < 0) n = -n; if (n > 20000) n = 20000;
        for (int64_t k = 0; k < n; k++) (void)cmb_process_timer_add(pr->pp, 1.0e6 + (double)(k % 7), 2000000 + k);
        if (cmb_event_pattern_count(CMB_ANY_ACTION, pr->pp, CMB_ANY_OBJECT) < (uint64_t)n) viol("C04", "burst-timers-missing", "armed %" PRId64 " timers but fewer events are scheduled for the process", n);
        cmb_process_timers_clear(pr->pp);
        for (int i = 0; i < pr->ncs; i++) if (pr->cs[i].kind == CK_TIMER && (pr->cs[i].state == CS_ARMED || pr->cs[i].state == CS_MAYBE)) pr->cs[i].state = CS_DEAD;
        if (n >= 8192) PROBE("probe.awaitable_tags_ge_64_chunks");
        TR2("tburst", pr->id, n);
    } else if (pis(l, "QBURST")) {
        /* growth template: tens of thousands of queued objects (queue tag pool crosses 64 chunks at 16384 tags; histories > 1024 samples) */
        if (W.noq == 0) return;
        const int q = (int)((uint64_t)pa(l, 1) % (uint64_t)W.noq);
        if (W.oqcap[q] != CMB_UNLIMITED || W.oqn[q] != 0 || cmb_objectqueue_length(W.oq[q]) != 0) return;
        int64_t n = pa(l, 2); if (n < 0) n = -n; if (n > 40000) n = 40000;
        for (int64_t k = 0; k < n; k++) if (cmb_objectqueue_put(W.oq[q], (void *)(uintptr_t)(0x400000 + 16 * k)) != CMB_PROCESS_SUCCESS) { viol("C12", "burst-put-failed", "put into an unlimited queue did not succeed at once"); return; }
        if (cmb_objectqueue_length(W.oq[q]) != (uint64_t)n) viol("C12", "length-mismatch", "queue length %" PRIu64 " after %" PRId64 " puts", cmb_objectqueue_length(W.oq[q]), n);
        for (int64_t k = 0; k < n; k++) {
            void *o = NULL;
            if (cmb_objectqueue_get(W.oq[q], &o) != CMB_PROCESS_SUCCESS || o != (void *)(uintptr_t)(0x400000 + 16 * k)) { viol("C12", "fifo-order", "burst: object #%" PRId64 " came out as %p", k, o); return; }
        }
        if (n >= 16384) PROBE("probe.queue_tags_ge_64_chunks");
        TR3("qburst", pr->id, q, n);
    } else if (pis(l, "TCANCEL")) {
        if (pr->ntimers == 0) return;
        const int k = (int)((uint64_t)pa(l, 1) % (uint64_t)pr->ntimers);
        const int ci = pr->timer_cause[k];
        (void)cmb_process_timer_cancel(pr->pp, pr->timer_handle[k]);
        if (ci >= 0 && (pr->cs[ci].state == CS_ARMED || pr->cs[ci].state == CS_MAYBE)) { pr->cs[ci].state = CS_DEAD; PROBE("timer.cancel_armed"); }
        TR2("tcancel", pr->id, k);
    } else if (pis(l, "TCLEAR")) {
        cmb_process_timers_clear(pr->pp);
        for (int i = 0; i < pr->ncs; i++) if (pr->cs[i].kind == CK_TIMER && (pr->cs[i].state == CS_ARMED || pr->cs[i].state == CS_MAYBE)) pr->cs[i].state = CS_DEAD;
        TR1("tclear", pr->id);
    } else if (pis(l, "WAITP")) {
        const int j = (int)((uint64_t)pa(l, 1) % (uint64_t)np);
        if (j == pr->id || !PR[j].created) return;
        const bool done = PR[j].finished;   /* documented: returns at once if the awaited process is finished */
        call_begin(pr, OP_WAITP, j, done);
        ret = cmb_process_wait_process(PR[j].pp);
        call_end(pr, ret);
    } else if (pis(l, "WAITE")) {
        const int e = (int)((uint64_t)pa(l, 1) % MAXHEV);
        hev_check_vanished(e);
        if (!W.hev[e].pending) return;
        call_begin(pr, OP_WAITE, e, 0);
        ret = cmb_process_wait_event(W.hev[e].handle);
        call_end(pr, ret);
    } else if (pis(l, "WAITT")) {
        /* wait for an event the library itself owns: a timer of another process (it may fire, or be cancelled by its owner,
         * by somebody else, or by whatever interrupts, preempts or ends the owner) */
        const int j = (int)((uint64_t)pa(l, 1) % (uint64_t)np);
        if (j == pr->id || !PR[j].started || PR[j].finished || PR[j].ntimers == 0) return;
        const uint64_t h = PR[j].timer_handle[(uint64_t)pa(l, 2) % (uint64_t)PR[j].ntimers];
        if (h == 0 || !cmb_event_is_scheduled(h)) return;
        call_begin(pr, OP_WAITT, j, 0);
        pr->waitt_handle = h;
        PROBE("c04.wait_for_timer_event_of_other_process");
        ret = cmb_process_wait_event(h);
        call_end(pr, ret);
    } else if (pis(l, "ACQ") || pis(l, "PRE")) {
        if (W.nres == 0) return;
        const int r = (int)((uint64_t)pa(l, 1) % (uint64_t)W.nres);
        if (pr->holds_res[r]) return;
        const bool pre = pis(l, "PRE");
        call_begin(pr, pre ? OP_PRE : OP_ACQ, r, 0);
        ret = pre ? cmb_resource_preempt(W.res[r]) : cmb_resource_acquire(W.res[r]);
        call_end(pr, ret);
    } else if (pis(l, "REL")) {
        if (W.nres == 0) return;
        const int r = (int)((uint64_t)pa(l, 1) % (uint64_t)W.nres);
        if (!pr->holds_res[r]) return;
        pr->holds_res[r] = false; W.res_holder[r] = -1;
        pr->rel_evseq[r] = W.seq + 1;
        TR2("rel", pr->id, r);
        extern void mon_forward_expected_begin(int cls, int idx); extern void mon_forward_expected_end(void);
        mon_forward_expected_begin(GC_RES, r);
        cmb_resource_release(W.res[r]);
        mon_forward_expected_end();
        PROBE("res.release");
    } else if (pis(l, "PACQ") || pis(l, "PPRE")) {
        if (W.npool == 0) return;
        const int p = (int)((uint64_t)pa(l, 1) % (uint64_t)W.npool);
        const uint64_t room = W.poolcap[p] - pr->pool_held[p];
        if (room == 0) return;
        uint64_t n = 1 + (uint64_t)pa(l, 2) % room;
        const bool pre = pis(l, "PPRE");
        call_begin(pr, pre ? OP_PPRE : OP_PACQ, p, (int64_t)n);
        pr->pool_at_call = pr->pool_held[p];
        ret = pre ? cmb_resourcepool_preempt(W.pool[p], n) : cmb_resourcepool_acquire(W.pool[p], n);
        call_end(pr, ret);
    } else if (pis(l, "PREL")) {
        if (W.npool == 0) return;
        const int p = (int)((uint64_t)pa(l, 1) % (uint64_t)W.npool);
        if (pr->pool_held[p] == 0) return;
        const uint64_t n = 1 + (uint64_t)pa(l, 2) % pr->pool_held[p];
        const uint64_t use0 = cmb_resourcepool_in_use(W.pool[p]);
        pr->pool_held[p] -= n;
        TR3("prel", pr->id, p, n);
        extern void mon_forward_expected_begin(int cls, int idx); extern void mon_forward_expected_end(void);
        mon_forward_expected_begin(GC_POOL, p);
        cmb_resourcepool_release(W.pool[p], n);
        mon_forward_expected_end();
        if (cmb_resourcepool_in_use(W.pool[p]) != use0 - n)
            viol("C07", "release-accounting", "release of %" PRIu64 " changed in_use from %" PRIu64 " to %" PRIu64, n, use0, cmb_resourcepool_in_use(W.pool[p]));
    } else if (pis(l, "BPUT") || pis(l, "BGET")) {
        if (W.nbuf == 0) return;
        const int b = (int)((uint64_t)pa(l, 1) % (uint64_t)W.nbuf);
        const bool put = pis(l, "BPUT");
        uint64_t n = amount_of(pa(l, 2), W.bufcap[b]);
        if (n == 0) PROBE(put ? "buf.put_of_zero" : "buf.get_of_zero");       /* "arbitrary amounts (zero, ...)": the header sets no lower limit */
        call_begin(pr, put ? OP_BPUT : OP_BGET, b, (int64_t)n);
        pr->buf_req = n; pr->bufvar = n; pr->buf_booked = 0;
        ret = put ? cmb_buffer_put(W.buf[b], &pr->bufvar) : cmb_buffer_get(W.buf[b], &pr->bufvar);
        call_end(pr, ret);
    } else if (pis(l, "QPUT") || pis(l, "QGET")) {
        if (W.noq == 0) return;
        const int q = (int)((uint64_t)pa(l, 1) % (uint64_t)W.noq);
        if (pis(l, "QPUT")) {
            const int64_t sel = pa(l, 2);
            void *obj = (sel == 1) ? NULL : (sel == 2) ? (void *)(uintptr_t)0x100000 : (void *)(uintptr_t)(0x100010 + 16 * (W.sigctr++));
            call_begin(pr, OP_QPUT, q, (int64_t)(uintptr_t)obj);
            ret = cmb_objectqueue_put(W.oq[q], obj);
            call_end(pr, ret);
        } else {
            call_begin(pr, OP_QGET, q, 0);
            pr->objloc = (void *)(uintptr_t)0xdead;
            ret = cmb_objectqueue_get(W.oq[q], &pr->objloc);
            call_end(pr, ret);
        }
    } else if (pis(l, "KPUT") || pis(l, "KGET")) {
        if (W.npq == 0) return;
        const int k = (int)((uint64_t)pa(l, 1) % (uint64_t)W.npq);
        if (pis(l, "KPUT")) {
            void *obj = (void *)(uintptr_t)(0x200010 + 16 * (W.sigctr++));
            call_begin(pr, OP_KPUT, k, (int64_t)(uintptr_t)obj);
            pr->kput_handle = 0;
            pr->arg = prio_of(pa(l, 2));
            pr->objloc = obj;
            ret = cmb_priorityqueue_put(W.pq[k], obj, prio_of(pa(l, 2)), (pa(l, 3) & 1) ? NULL : &pr->kput_handle);
            call_end(pr, ret);
        } else {
            call_begin(pr, OP_KGET, k, 0);
            pr->objloc = (void *)(uintptr_t)0xdead;
            ret = cmb_priorityqueue_get(W.pq[k], &pr->objloc);
            call_end(pr, ret);
        }
    } else if (pis(l, "KCAN")) {
        if (W.npq == 0) return;
        do_kcancel((int)((uint64_t)pa(l, 1) % (uint64_t)W.npq), (uint64_t)pa(l, 2));
    } else if (pis(l, "KREP")) {
        if (W.npq == 0) return;
        const int k = (int)((uint64_t)pa(l, 1) % (uint64_t)W.npq);
        if (W.pqn[k] == 0) return;
        qitem *it = &W.pqm[k][(uint64_t)pa(l, 2) % (uint64_t)W.pqn[k]];
        if (it->handle == 0) return;                              /* handle unknown (put without handleloc) */
        it->prio = prio_of(pa(l, 3));
        TR3("krep", k, it->handle, it->prio);
        cmb_priorityqueue_reprioritize(W.pq[k], it->handle, it->prio);
        PROBE("pq.reprioritize_queued");
    } else if (pis(l, "CWAIT")) {
        if (W.ncond == 0) return;
        const int c = (int)((uint64_t)pa(l, 1) % (uint64_t)W.ncond);
        predspec *ps = &predspecs[pr->id];
        ps->kind = (int)((uint64_t)pa(l, 2) % PR_NKINDS); ps->a = (int)((uint64_t)pa(l, 3) % 8); ps->b = pa(l, 4); ps->cond = c;
        call_begin(pr, OP_CWAIT, c, ps->kind);
        ret = cmb_condition_wait(W.cond[c], pred_fn, ps);
        call_end(pr, ret);
    } else if (pis(l, "CSIG")) {
        if (W.ncond == 0) return;
        do_csignal((int)((uint64_t)pa(l, 1) % (uint64_t)W.ncond));
    } else if (pis(l, "CCAN") || pis(l, "CREM")) {
        if (W.ncond == 0) return;
        const int c = (int)((uint64_t)pa(l, 1) % (uint64_t)W.ncond);
        const int j = (int)((uint64_t)pa(l, 2) % (uint64_t)np);
        for (int g = 0; g < W.nguards; g++) if (W.guards[g].cls == GC_COND && W.guards[g].idx == c) do_gcancel(g, j, pis(l, "CCAN"));
    } else if (pis(l, "SETVAR")) {
        W.var[(uint64_t)pa(l, 1) % MAXVAR] = pa(l, 2);
        TR3("setvar", pr->id, pa(l, 1), pa(l, 2));
        for (int c = 0; c < W.ncond; c++) do_csignal(c);
    } else if (pis(l, "INTR")) {
        do_interrupt((int)((uint64_t)pa(l, 1) % (uint64_t)np), prio_of(pa(l, 2)));
    } else if (pis(l, "STOP")) {
        const int j = (int)((uint64_t)pa(l, 1) % (uint64_t)np);
        if (j == pr->id) return;
        do_stop(j);
    } else if (pis(l, "STOPSELF")) {
        void *val = (void *)(uintptr_t)(0xA0000 + (uintptr_t)pr->id * 256u + (uintptr_t)pr->gen);
        PROBE("end.stop_self");
        proc_end(pr, END_STOPSELF, val);
        cmb_process_stop(pr->pp, val);
        viol("C09", "stop-self-returned", "cmb_process_stop on the calling process returned");
    } else if (pis(l, "EXIT")) {
        void *val = (void *)(uintptr_t)(0xB0000 + (uintptr_t)pr->id * 256u + (uintptr_t)pr->gen);
        PROBE("end.exit");
        proc_end(pr, END_EXIT, val);
        cmb_process_exit(val);
        viol("C09", "exit-returned", "cmb_process_exit returned");
    } else if (pis(l, "RESUME")) {
        do_resume((int)((uint64_t)pa(l, 1) % (uint64_t)np));
    } else if (pis(l, "START")) {
        const int j = (int)((uint64_t)pa(l, 1) % (uint64_t)np);
        if (j != pr->id) do_start(j);
    } else if (pis(l, "PRIO")) {
        do_prio((int)((uint64_t)pa(l, 1) % (uint64_t)np), prio_of(pa(l, 2)));
    } else if (pis(l, "RECON") || pis(l, "RECOFF")) {
        extern void mon_record(int kind, int idx, bool on);
        mon_record((int)((uint64_t)pa(l, 1) % 5), (int)((uint64_t)pa(l, 2) % 4), pis(l, "RECON"));
    } else if (pis(l, "OBS")) {
        /* change the observer set while processes wait: unsubscribe an observing condition, subscribe a new one,
         * or ask to unsubscribe one that is not subscribed (documented to return false) */
        if (W.ncond == 0 || W.nguards == 0) return;
        extern void mon_subscribed(int c, int g); extern void mon_unsubscribed(int c, int g); extern bool mon_observes(int c, int g);
        const int c = (int)((uint64_t)pa(l, 1) % (uint64_t)W.ncond);
        const int g = (int)((uint64_t)pa(l, 2) % (uint64_t)W.nguards);
        if (W.guards[g].cls == GC_COND) return;
        const int64_t how = pa(l, 3);
        TR4("obs", c, g, how, mon_observes(c, g));
        if (mon_observes(c, g)) {
            const bool r = (how & 1) ? cmb_condition_unsubscribe(W.cond[c], W.guards[g].g) : cmb_resourceguard_unregister(W.guards[g].g, &W.cond[c]->guard);
            if (!r) viol("C13", "unsubscribe-retval", "unsubscribing condition %d from guard %d returned false although it was subscribed", c, g);
            mon_unsubscribed(c, g);
        } else if (how & 2) {
            const bool r = cmb_resourceguard_unregister(W.guards[g].g, &W.cond[c]->guard);
            if (r) viol("C13", "unsubscribe-retval", "unsubscribing condition %d from guard %d returned true although it was not subscribed", c, g);
            PROBE("cond.unsubscribe_absent");
        } else {
            if (how & 1) cmb_condition_subscribe(W.cond[c], W.guards[g].g); else cmb_resourceguard_register(W.guards[g].g, &W.cond[c]->guard);
            mon_subscribed(c, g);
        }
    } else if (pis(l, "REPORT")) {
        /* the text reports, at any moment: never recorded, while recording, after recording */
        static FILE *devnull;
        if (!devnull) devnull = fopen("/dev/null", "w");
        const int kind = (int)((uint64_t)pa(l, 1) % 6);
        const int idx = (int)((uint64_t)pa(l, 2) % 4);
        if (!(tnow() < 1.0e60 && tnow() > -1.0e60)) return;      /* fourth powers of the time weights must stay finite: not the library's problem */
        TR2("report", kind, idx);
        switch (kind) {
            case 0: if (W.nres) cmb_resource_print_report(W.res[idx % W.nres], devnull); break;
            case 1: if (W.npool) cmb_resourcepool_print_report(W.pool[idx % W.npool], devnull); break;
            case 2: if (W.nbuf) cmb_buffer_print_report(W.buf[idx % W.nbuf], devnull); break;
            case 3: if (W.noq) cmb_objectqueue_report_print(W.oq[idx % W.noq], devnull); break;
            case 4: if (W.npq) cmb_priorityqueue_report_print(W.pq[idx % W.npq], devnull); break;
            default: cmb_event_queue_print(devnull); break;
        }
        PROBE("report.printed");
    } else if (pis(l, "GCAN") || pis(l, "GREM")) {
        if (W.nguards == 0) return;
        do_gcancel((int)((uint64_t)pa(l, 1) % (uint64_t)W.nguards), (int)((uint64_t)pa(l, 2) % (uint64_t)np), pis(l, "GCAN"));
    } else if (pis(l, "SCHEV")) {
        hev_schedule((int)((uint64_t)pa(l, 1) % MAXHEV), tnow() + dur_of(pa(l, 2)), prio_of(pa(l, 3)), pa(l, 4));
    } else if (pis(l, "CANEV")) {
        hev_cancel((int)((uint64_t)pa(l, 1) % MAXHEV));
    }
}

void *proc_body(struct cmb_process *me, void *ctx)
{
    proc *pr = ctx;
    extern void mon_body_entry(proc *pr, struct cmb_process *me);
    pr->gen++;
    mon_body_entry(pr, me);
    pr->started = true; pr->finished = false; pr->start_pending = false; pr->endkind = END_NONE;
    pr->pc = 0; pr->op = OP_NONE; pr->ncs = 0; pr->ntimers = 0;
    pr->ran_this_event = true;
    TR2("body", pr->id, pr->gen);
    while (pr->pc < pr->nsteps) {
        const pline *l = pr->steps[pr->pc++];
        exec_step(pr, l);
    }
    void *val = (void *)(uintptr_t)(0xC0000 + (uintptr_t)pr->id * 256u + (uintptr_t)pr->gen);
    PROBE("end.return");
    proc_end(pr, END_RETURN, val);
    return val;
}

/* ------------------------------------------------------------------ build / teardown */
static void start_action(void *subject, void *object) { (void)object; do_start((int)((proc *)subject - PR)); }

static void add_guard(struct cmb_resourceguard *g, int cls, int idx)
{
    W.guards[W.nguards].g = g; W.guards[W.nguards].cls = cls; W.guards[W.nguards].idx = idx; W.nguards++;
}

static uint64_t cap_of(int64_t code) { return code <= 0 ? CMB_UNLIMITED : (uint64_t)code; }

void world_build(const plan *p)
{
    PLAN = p;
    memset(&W, 0, sizeof W);
    memset(PR, 0, sizeof PR);
    memset(faults, 0, sizeof faults); nfaults = 0;
    memset(predspecs, 0, sizeof predspecs);
    W.np = 3; W.nres = 1;
    double t0 = 0.0;
    for (int i = 0; i < p->n; i++) {
        const pline *l = &p->l[i];
        if (pis(l, "CFG")) {
            W.np = (int)(1 + (uint64_t)pa(l, 0) % MAXP);
            W.nres = (int)((uint64_t)pa(l, 1) % (MAXRES + 1)); W.npool = (int)((uint64_t)pa(l, 2) % (MAXPOOL + 1));
            W.nbuf = (int)((uint64_t)pa(l, 3) % (MAXBUF + 1)); W.noq = (int)((uint64_t)pa(l, 4) % (MAXOQ + 1));
            W.npq = (int)((uint64_t)pa(l, 5) % (MAXPQ + 1)); W.ncond = (int)((uint64_t)pa(l, 6) % (MAXCOND + 1));
            t0 = dur_of(pa(l, 7)); if (pa(l, 7) < 0) t0 = -t0;
            break;
        }
    }
    for (int k = 0; k < MAXPOOL; k++) W.poolcap[k] = 3;
    for (int k = 0; k < MAXBUF; k++) W.bufcap[k] = 4;
    for (int k = 0; k < MAXOQ; k++) W.oqcap[k] = 2;
    for (int k = 0; k < MAXPQ; k++) W.pqcap[k] = 2;
    for (int i = 0; i < p->n; i++) {
        const pline *l = &p->l[i];
        if (!pis(l, "CAP")) continue;
        const int idx = (int)((uint64_t)pa(l, 1) % 2);
        switch (pa(l, 0)) {
            case 1: W.poolcap[idx] = pa(l, 2) <= 0 ? 1 : (uint64_t)pa(l, 2); break;   /* pools need a finite capacity > 0 */
            case 2: W.bufcap[idx] = cap_of(pa(l, 2)); break;
            case 3: W.oqcap[idx] = cap_of(pa(l, 2)); break;
            case 4: W.pqcap[idx] = cap_of(pa(l, 2)); break;
            default: break;
        }
    }
    cmb_logger_flags_off(CMB_LOGGER_INFO | CMB_LOGGER_WARNING);
    cmb_event_queue_initialize(t0);
    char nm[128];
    const bool longnames = (p->seed & 1u) != 0;       /* names beyond the library's 32-byte name buffers in half of the runs */
    for (int r = 0; r < W.nres; r++) { W.res[r] = cmb_resource_create(); snprintf(nm, sizeof nm, longnames ? "R%d-a-resource-with-a-name-far-beyond-the-thirty-two-characters-of-the-name-buffer" : "R%d", r); cmb_resource_initialize(W.res[r], nm); W.res_holder[r] = -1; add_guard(&W.res[r]->guard, GC_RES, r); }
    for (int k = 0; k < W.npool; k++) { W.pool[k] = cmb_resourcepool_create(); snprintf(nm, sizeof nm, longnames ? "L%d-an-object-with-a-name-far-beyond-the-thirty-two-characters-of-the-name-buffer" : "L%d", k); cmb_resourcepool_initialize(W.pool[k], nm, W.poolcap[k]); add_guard(&W.pool[k]->guard, GC_POOL, k); }
    for (int k = 0; k < W.nbuf; k++) { W.buf[k] = cmb_buffer_create(); snprintf(nm, sizeof nm, longnames ? "B%d-an-object-with-a-name-far-beyond-the-thirty-two-characters-of-the-name-buffer" : "B%d", k); cmb_buffer_initialize(W.buf[k], nm, W.bufcap[k]); add_guard(&W.buf[k]->front_guard, GC_BUF_FRONT, k); add_guard(&W.buf[k]->rear_guard, GC_BUF_REAR, k); }
    for (int k = 0; k < W.noq; k++) { W.oq[k] = cmb_objectqueue_create(); snprintf(nm, sizeof nm, longnames ? "Q%d-an-object-with-a-name-far-beyond-the-thirty-two-characters-of-the-name-buffer" : "Q%d", k); cmb_objectqueue_initialize(W.oq[k], nm, W.oqcap[k]); add_guard(&W.oq[k]->front_guard, GC_OQ_FRONT, k); add_guard(&W.oq[k]->rear_guard, GC_OQ_REAR, k); }
    for (int k = 0; k < W.npq; k++) { W.pq[k] = cmb_priorityqueue_create(); snprintf(nm, sizeof nm, longnames ? "K%d-an-object-with-a-name-far-beyond-the-thirty-two-characters-of-the-name-buffer" : "K%d", k); cmb_priorityqueue_initialize(W.pq[k], nm, W.pqcap[k]); add_guard(&W.pq[k]->front_guard, GC_PQ_FRONT, k); add_guard(&W.pq[k]->rear_guard, GC_PQ_REAR, k); }
    for (int k = 0; k < W.ncond; k++) { W.cond[k] = cmb_condition_create(); snprintf(nm, sizeof nm, longnames ? "C%d-an-object-with-a-name-far-beyond-the-thirty-two-characters-of-the-name-buffer" : "C%d", k); cmb_condition_initialize(W.cond[k], nm); add_guard(&W.cond[k]->guard, GC_COND, k); }

    /* processes: defaults, then P lines */
    bool slot_used[MAXP]; memset(slot_used, 0, sizeof slot_used);
    int64_t startd[MAXP];
    for (int i = 0; i < W.np; i++) { PR[i].id = i; PR[i].slot = -1; PR[i].prio0 = 0; startd[i] = 0; }
    for (int i = 0; i < p->n; i++) {
        const pline *l = &p->l[i];
        if (!pis(l, "P")) continue;
        const int id = (int)((uint64_t)pa(l, 0) % (uint64_t)W.np);
        const int slot = (int)((uint64_t)pa(l, 1) % MAXP);
        if (PR[id].slot < 0 && !slot_used[slot]) { PR[id].slot = slot; slot_used[slot] = true; }
        PR[id].prio0 = prio_of(pa(l, 2));
        startd[id] = pa(l, 3);
    }
    for (int i = 0; i < W.np; i++) if (PR[i].slot < 0) { int s = 0; while (slot_used[s]) s++; PR[i].slot = s; slot_used[s] = true; }
    for (int i = 0; i < p->n; i++) {
        const pline *l = &p->l[i];
        if (l->n < 1) continue;
        if (pis(l, "CFG") || pis(l, "P") || pis(l, "CAP") || pis(l, "SUB") || pis(l, "HEV")) continue;
        if (pis(l, "F")) {
            if (nfaults < MAXFAULT) {
                fault *f = &faults[nfaults++];
                f->victim = (int)((uint64_t)pa(l, 0) % (uint64_t)W.np); f->stepk = (int)pa(l, 1); f->delay = pa(l, 2); f->prio = pa(l, 3);
                f->kind = (int)pa(l, 4); f->arg = pa(l, 5); f->line = i;
            }
            continue;
        }
        const int id = (int)((uint64_t)pa(l, 0) % (uint64_t)W.np);
        if (PR[id].nsteps < MAXSTEPS) { PR[id].steps[PR[id].nsteps] = l; PR[id].stepidx[PR[id].nsteps] = i; PR[id].nsteps++; }
    }
    for (int i = 0; i < W.np; i++) {
        proc *pr = &PR[i];
        pr->pp = &arena[pr->slot];
        memset(pr->pp, 0, sizeof *pr->pp);
        snprintf(nm, sizeof nm, longnames ? "P%d-a-process-with-a-name-far-beyond-the-thirty-two-characters-of-the-name-buffer" : "P%d", i);
        cmb_process_initialize(pr->pp, nm, proc_body, pr, pr->prio0);
        pr->created = true;
    }
    /* observers */
    for (int i = 0; i < p->n; i++) {
        const pline *l = &p->l[i];
        if (!pis(l, "SUB") || W.ncond == 0 || W.nguards == 0) continue;
        const int c = (int)((uint64_t)pa(l, 0) % (uint64_t)W.ncond);
        const int g = (int)((uint64_t)pa(l, 1) % (uint64_t)W.nguards);
        if (W.guards[g].cls == GC_COND) continue;        /* no cycles */
        if (pa(l, 2) & 1) cmb_condition_subscribe(W.cond[c], W.guards[g].g);
        else cmb_resourceguard_register(W.guards[g].g, &W.cond[c]->guard);
        extern void mon_subscribed(int c, int g);
        mon_subscribed(c, g);
    }
    for (int i = 0; i < p->n; i++) {
        const pline *l = &p->l[i];
        if (!pis(l, "HEV")) continue;
        hev_schedule((int)((uint64_t)pa(l, 0) % MAXHEV), t0 + dur_of(pa(l, 1)), prio_of(pa(l, 2)), pa(l, 3));
    }
    for (int i = 0; i < W.np; i++) {
        if (startd[i] < 0) continue;
        if (startd[i] == 0) do_start(i);
        else (void)cmb_event_schedule(start_action, &PR[i], NULL, t0 + dur_of(startd[i]), 0);
    }
}

void world_teardown(void)
{
    /* a valid end of a trial: stop whoever is still alive, then terminate everything */
    for (int i = 0; i < W.np; i++) {
        proc *pr = &PR[i];
        if (pr->created && pr->started && !pr->finished && cmb_process_status(pr->pp) == CMB_PROCESS_RUNNING)
            cmb_process_stop(pr->pp, NULL);
    }
    cmb_event_queue_clear();
    for (int i = 0; i < W.np; i++) if (PR[i].created) cmb_process_terminate(PR[i].pp);
    for (int k = 0; k < W.ncond; k++) cmb_condition_destroy(W.cond[k]);
    for (int k = 0; k < W.npq; k++) cmb_priorityqueue_destroy(W.pq[k]);
    for (int k = 0; k < W.noq; k++) cmb_objectqueue_destroy(W.oq[k]);
    for (int k = 0; k < W.nbuf; k++) cmb_buffer_destroy(W.buf[k]);
    for (int k = 0; k < W.npool; k++) cmb_resourcepool_destroy(W.pool[k]);
    for (int r = 0; r < W.nres; r++) cmb_resource_destroy(W.res[r]);
    cmb_event_queue_terminate();
}
