/* libstate.c - the library's writable, non-thread-local static storage, located through the linker map
 * (<exe>.map, written by build.sh): one address range per libcimba.a member and .data/.bss input section.
 * Invariant used by the rng and experiment engines: while worker threads run trials / draw numbers, none of
 * these bytes changes, except in the members that are shared by design (the trial dispenser in cimba.o, the
 * logger's mutex in cmb_logger.o).  State that is static but not thread-local shows up here however the
 * threads happen to interleave. */
#include "core.h"
#include <stdlib.h>
#include <string.h>
#include <unistd.h>

#define MAXRANGE 64
typedef struct { unsigned char *addr; size_t size; char member[40]; bool shared_by_design; } lrange;
static lrange rg[MAXRANGE];
static int nrg = -1;
static unsigned char *snap;
static size_t snapsz;

static void ls_init(void)
{
    nrg = 0;
    char path[600];
    ssize_t n = readlink("/proc/self/exe", path, sizeof path - 8);
    if (n <= 0) return;
    path[n] = 0;
    strcat(path, ".map");
    FILE *fp = fopen(path, "r");
    if (!fp) return;
    char line[1024], pending[64] = "";
    while (fgets(line, sizeof line, fp)) {
        /* " .bss           0x0000000000525a40       0x28 /path/libcimba.a(cmb_random.o)"  (the section name may sit on its own line) */
        char sec[64] = "", file[700] = ""; unsigned long long addr = 0, size = 0;
        int k = sscanf(line, " %63s 0x%llx 0x%llx %699s", sec, &addr, &size, file);
        if (k == 1 && sec[0] == '.') { snprintf(pending, sizeof pending, "%s", sec); continue; }
        if (k != 4) {
            if (pending[0] && sscanf(line, " 0x%llx 0x%llx %699s", &addr, &size, file) == 3) { snprintf(sec, sizeof sec, "%s", pending); k = 4; }
            pending[0] = 0;
            if (k != 4) continue;
        }
        pending[0] = 0;
        const char *m = strstr(file, "libcimba.a(");
        if (!m || size == 0 || addr == 0) continue;
        if (strncmp(sec, ".bss", 4) != 0 && strncmp(sec, ".data", 5) != 0) continue;     /* not .tbss/.tdata/.rodata */
        if (strstr(sec, ".rel.ro")) continue;
        if (nrg >= MAXRANGE) break;
        lrange *r = &rg[nrg++];
        r->addr = (unsigned char *)(uintptr_t)addr; r->size = (size_t)size;
        snprintf(r->member, sizeof r->member, "%s", m + strlen("libcimba.a("));
        char *paren = strchr(r->member, ')'); if (paren) *paren = 0;
        r->shared_by_design = !strcmp(r->member, "cimba.o") || !strcmp(r->member, "cmb_logger.o");
        snapsz += r->size;
    }
    fclose(fp);
    snap = malloc(snapsz ? snapsz : 1);
}

int libstate_ranges(void) { if (nrg < 0) ls_init(); return nrg; }

/* under ASan the input sections include the red zones between globals: read them byte by byte, uninstrumented */
#if defined(__clang__) || defined(__GNUC__)
#  define NO_ASAN __attribute__((no_sanitize("address")))
#else
#  define NO_ASAN
#endif

NO_ASAN void libstate_snapshot(void)
{
    if (nrg < 0) ls_init();
    size_t off = 0;
    for (int i = 0; i < nrg; i++) {
        volatile const unsigned char *src = rg[i].addr;
        for (size_t b = 0; b < rg[i].size; b++) snap[off + b] = src[b];
        off += rg[i].size;
    }
}

/* returns the member whose non-shared static storage changed since the snapshot, or NULL */
NO_ASAN const char *libstate_changed(size_t *offset)
{
    size_t off = 0;
    for (int i = 0; i < nrg; i++) {
        if (!rg[i].shared_by_design) {
            volatile const unsigned char *cur = rg[i].addr;
            for (size_t b = 0; b < rg[i].size; b++) if (snap[off + b] != cur[b]) { if (offset) *offset = b; return rg[i].member; }
        }
        off += rg[i].size;
    }
    return NULL;
}
