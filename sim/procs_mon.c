/* procs_mon.c - monitors and oracles for C04..C14 (see DESIGN.md section 6) */
#include "procs.h"
#include <math.h>
#include <stdarg.h>
#include <stdlib.h>
#include <string.h>
#include <xmmintrin.h>

extern bool pred_now(int pid);

/* ------------------------------------------------------------------ pending verdicts */
#define MAXPEND 8
static violation pend[MAXPEND];
static int npend;
void pend_viol(const char *prop, const char *sig, const char *fmt, ...)
{
    if (npend >= MAXPEND) return;
    violation *v = &pend[npend++];
    snprintf(v->prop, sizeof v->prop, "%s", prop);
    snprintf(v->sig, sizeof v->sig, "%s", sig);
    va_list ap; va_start(ap, fmt); vsnprintf(v->msg, sizeof v->msg, fmt, ap); va_end(ap);
}

/* ------------------------------------------------------------------ per-event snapshots */
typedef struct { int pid; int64_t prio; double etime; } gent;
/* arrival order at a waiting list, kept by the harness: at most one process enters a given list per event, so the event
 * number in which it (last) entered orders same-instant arrivals of equal priority */
static uint64_t garr[MAXGUARD][MAXP];
static uint64_t garr_call[MAXGUARD][MAXP];     /* the call (callseq) in which the arrival stamp was taken */
#define MAXGENT 48
static gent gbefore[MAXGUARD][MAXGENT]; static int ngbefore[MAXGUARD];
static uint64_t pool_before[MAXPOOL][MAXP];
static uint64_t pool_evstart[MAXPOOL][MAXP];   /* holdings when the current event began */
static double t_before;
static uint32_t main_csr;
extern uint64_t hev_count_for_subject(const void *pp);
static bool cond_observes[MAXCOND][MAXGUARD];
/* timers that fired (delivered to their owner), by event handle: survives a restart of the owner, whose cause table is reset */
#define MAXFIRED 512
static struct { uint64_t h; double t; } fired[MAXFIRED]; static int nfired;
static bool timer_fired_at(uint64_t h, double t) { for (int i = 0; i < nfired && i < MAXFIRED; i++) if (fired[i].h == h && fired[i].t == t) return true; return false; }
static void wk_reset(void);
static void wk_return(proc *pr, int64_t ret);
static int last_runner;          /* process that ran during the current event, -1 none */
static uint64_t ev_seq;          /* W.seq when the current event began */
static int64_t prio_ref[MAXP];   /* priorities at the latest of {event start, pool-preempt call in this event} */

static uint64_t evalcount[MAXP];   /* C13: predicate evaluations per process */

/* C14 candidates */
static struct { bool valid; double v; } rec_cand[5][4];

static const char *gcname(int cls)
{
    static const char *n[] = { "resource", "pool", "buffer-getters", "buffer-putters", "queue-getters", "queue-putters",
                               "pqueue-getters", "pqueue-putters", "condition" };
    return n[cls];
}

static int snapshot_guard(int g, gent *out)
{
    const struct cmi_hashheap *hp = &W.guards[g].g->priority_queue;
    int n = 0;
    if (hp->heap == NULL) return 0;
    for (uint64_t i = 1; i <= hp->heap_count && n < MAXGENT; i++) {
        const struct cmi_heap_tag *t = &hp->heap[i];
        out[n].pid = proc_of((const struct cmb_process *)(uintptr_t)t->key);
        out[n].prio = t->isortkey; out[n].etime = t->dsortkey; n++;
    }
    return n;
}

void mon_reset(void)
{
    npend = 0; last_runner = -1;
    memset(evalcount, 0, sizeof evalcount);
    memset(ngbefore, 0, sizeof ngbefore);
    memset(cond_observes, 0, sizeof cond_observes);
    wk_reset();
    nfired = 0;
    memset(garr, 0, sizeof garr);
    memset(garr_call, 0, sizeof garr_call);
    memset(rec_cand, 0, sizeof rec_cand);
    main_csr = _mm_getcsr() & ~0x3fu;
}

static bool pred_observed(const proc *pr, int c);
/* a change of the observer set: a waiter whose predicate is true at this moment was not made true by a signalled change */
static void obs_changed(int c)
{
    for (int i = 0; i < W.np; i++)
        if (PR[i].op == OP_CWAIT && !PR[i].finished && PR[i].obj == c && pred_now(i)) PR[i].cond_seen_false = false;
}
void mon_subscribed(int c, int g) { cond_observes[c][g] = true; PROBE("cond.observer_registered"); if (W.np > 0) obs_changed(c); }
void mon_unsubscribed(int c, int g) { cond_observes[c][g] = false; PROBE("cond.observer_unregistered"); obs_changed(c); }
bool mon_observes(int c, int g) { return cond_observes[c][g]; }

void mon_before_event(void)
{
    t_before = tnow();
    for (int g = 0; g < W.nguards; g++) ngbefore[g] = snapshot_guard(g, gbefore[g]);
    for (int p = 0; p < W.npool; p++)
        for (int i = 0; i < W.np; i++) pool_evstart[p][i] = pool_before[p][i] = cmb_resourcepool_held_by_process(W.pool[p], PR[i].pp);
    for (int i = 0; i < W.np; i++) { PR[i].ran_this_event = false; PR[i].named_this_event = false; PR[i].prio_touched_this_event = false; prio_ref[i] = PR[i].pp->priority; }
    last_runner = -1;
    ev_seq = W.seq;
}

static void scan_pool_victims(void);
void mon_call_begin(proc *pr)
{
    if (pr->op == OP_CWAIT) pr->cond_seen_false = !pred_now(pr->id);
    pr->call_evseq = ev_seq;
    if (pr->op == OP_PPRE) {
        scan_pool_victims();         /* settle what happened before this call, under the old reference */
        for (int i = 0; i < W.np; i++) prio_ref[i] = PR[i].pp->priority;
    }
}

/* ------------------------------------------------------------------ helpers */
static int count_holdable(const struct cmb_process *pp, const void *res)
{
    int n = 0;
    for (const struct cmi_slist_head *h = pp->resources.next; h != NULL; h = h->next) {
        const struct cmi_process_holdable *ph = cmi_container_of(h, struct cmi_process_holdable, listhead);
        if ((const void *)ph->res == res) n++;
        if (n > 1000) break;
    }
    return n;
}

static void fold_buffer(proc *pr)
{
    if (pr->op != OP_BPUT && pr->op != OP_BGET) return;
    const bool put = pr->op == OP_BPUT;
    const uint64_t cur = put ? pr->buf_req - pr->bufvar : pr->bufvar;
    /* what one call has transferred so far only grows, and never beyond what was asked for */
    if (cur < pr->buf_booked || cur > pr->buf_req || (put && pr->bufvar > pr->buf_req))
        viol("C11", "transferred-amount-out-of-range", "process %d: %s of %" PRIu64 " has transferred %" PRIu64 " so far (was %" PRIu64 " at the last look)",
             pr->id, put ? "put" : "get", pr->buf_req, cur, pr->buf_booked);
    if (put) W.buf_put[pr->obj] += cur - pr->buf_booked; else W.buf_got[pr->obj] += cur - pr->buf_booked;
    if (cur != pr->buf_booked && cur != pr->buf_req && cur != 0) PROBE("buf.partial_transfer");
    pr->buf_booked = cur;
}
void mon_fold_buffer(proc *pr) { fold_buffer(pr); }

static bool in_guard(int g, const proc *pr)
{
    return cmi_hashheap_is_enqueued(&W.guards[g].g->priority_queue, (uint64_t)(uintptr_t)pr->pp);
}

static void heap_struct_check(const struct cmi_hashheap *hp, const char *what)
{
    if (hp->heap == NULL) return;
    for (uint64_t i = 1; i <= hp->heap_count; i++) {
        const struct cmi_heap_tag *t = &hp->heap[i];
        if (i >= 2 && (*hp->heap_compare)(t, &hp->heap[i / 2])) { viol("C02", "in-situ-heap-order", "%s: child %" PRIu64 " goes before its parent", what, i); return; }
        if (t->hash_index >= hp->hash_size || hp->hash_map[t->hash_index].key != t->key || hp->hash_map[t->hash_index].heap_index != i) {
            viol("C02", "in-situ-hash-backpointer", "%s: heap[%" PRIu64 "] back-pointer wrong", what, i); return;
        }
    }
}


/* C07: a process whose units vanish without it running, being stopped or ending is a preemption victim */
static void scan_pool_victims(void)
{
    const double now = tnow();
    for (int p = 0; p < W.npool; p++) {
        /* only one process acts between two scans: whoever gained units is the taker */
        int taker = -1;
        for (int i = 0; i < W.np; i++)
            if (cmb_resourcepool_held_by_process(W.pool[p], PR[i].pp) > pool_before[p][i]) taker = i;
        for (int i = 0; i < W.np; i++) {
            proc *pr = &PR[i];
            const uint64_t lib = cmb_resourcepool_held_by_process(W.pool[p], pr->pp);
            const bool midcall = (pr->op == OP_PACQ || pr->op == OP_PPRE) && pr->obj == p && !pr->finished;
            if (lib < pool_before[p][i] && !pr->ran_this_event && !(pr->finished && pr->end_seq == ev_seq)) {
                if (lib != 0) viol("C07", "partial-preemption", "pool %d: process %d went from %" PRIu64 " to %" PRIu64 " units without acting", p, i, pool_before[p][i], lib);
                if (taker < 0 || taker == i) viol("C07", "units-vanished", "pool %d: process %d lost %" PRIu64 " units and nobody gained any", p, i, pool_before[p][i] - lib);
                else if (!(PR[taker].op == OP_PPRE && PR[taker].obj == p) && !(PR[taker].ran_this_event))
                    viol("C07", "units-vanished", "pool %d: process %d lost units to process %d, which is not preempting", p, i, taker);
                else if (!(prio_ref[i] < prio_ref[taker]))
                    viol("C07", "victim-priority", "pool %d: process %d (priority %" PRId64 ") was preempted by process %d (priority %" PRId64 ")", p, i, prio_ref[i], taker, prio_ref[taker]);
                pr->pool_held[p] = lib;
                pr->named_this_event = true;
                if (midcall) { pr->victim_in_call = true; PROBE("probe.pool_victim_mid_acquire"); }
                cause *c = cause_add(pr, CK_PREEMPT, CMB_PROCESS_PREEMPTED, now, true); c->ref = 100 + p;
                static char nm[OP_NOPS][48];
                if (!nm[pr->op][0]) snprintf(nm[pr->op], sizeof nm[pr->op], "fault.pool_preempt.on_%s", opname[pr->op]);
                (*ctr(nm[pr->op]))++; g_stats.faults++;
            }
        }
        for (int i = 0; i < W.np; i++) pool_before[p][i] = cmb_resourcepool_held_by_process(W.pool[p], PR[i].pp);
    }
}

/* ------------------------------------------------------------------ C04: matching a return to its cause */
/* "timers a process has armed stay armed until ... the process is interrupted, preempted": once the notice has been delivered,
 * every timer that was armed before the interrupt was sent (the preemption happened) is gone and must never fire.  A timer that
 * somebody else armed on the process between that moment and the delivery of the notice, in the same instant, was armed after
 * the interruption; the library clears it with the others when it delivers an interrupt and keeps it when it delivers a
 * resource's preemption notice: either is accepted.  Causes are kept in the order in which they were created. */
static void timers_after_notice(proc *pr, const cause *notice)
{
    for (int i = 0; i < pr->ncs; i++) if (pr->cs[i].kind == CK_TIMER && pr->cs[i].state == CS_ARMED) {
        if (&pr->cs[i] < notice) { pr->cs[i].state = CS_DEAD; PROBE("c04.timer_dead_after_notice"); }
        else { pr->cs[i].state = CS_MAYBE; PROBE("c04.timer_armed_between_notice_and_delivery"); }
    }
}

static bool match_cause(proc *pr, int64_t ret, int want_kind, int want_ref)
{
    const double now = tnow();
    cause *best = NULL;
    for (int i = 0; i < pr->ncs; i++) {
        cause *c = &pr->cs[i];
        if (c->value != ret || (c->state != CS_ARMED && c->state != CS_MAYBE) || c->due != now) continue;
        if (want_kind) { if (c->kind != want_kind || c->ref != want_ref) continue; }
        else if (c->kind == CK_HOLD || c->kind == CK_PEND || c->kind == CK_EV) continue;
        best = c; break;
    }
    if (best) {
        best->state = CS_DELIVERED;
        /* cmb_process_resume is "for a yielded process": its signal belongs to a yield, not to whatever the process does next */
        if (best->kind == CK_RESUME && pr->op != OP_YIELD)
            viol("C04", "resume-delivered-to-another-wait", "process %d: the signal %" PRId64 " of a resume aimed at its yield was delivered to its %s at t=%g", pr->id, ret, opname[pr->op], now);
        if (best->kind == CK_TIMER) { fired[nfired % MAXFIRED].h = best->handle; fired[nfired % MAXFIRED].t = now; nfired++; }
        if (best->kind == CK_INTR && cmb_event_queue_count() == 0) PROBE("probe.interrupt_with_otherwise_empty_queue");
        if (best->kind == CK_TIMER && cmb_event_queue_count() == 0) PROBE("probe.timer_with_otherwise_empty_queue");
        {   /* was a grant already on its way when this cause got there first? */
            const int g = guard_of_wait(pr);
            if (g >= 0 && pr->call_evseq != ev_seq) {
                bool was_in = false;
                for (int b = 0; b < ngbefore[g]; b++) if (gbefore[g][b].pid == pr->id) was_in = true;
                if (!was_in) {
                    if (best->kind == CK_TIMER) PROBE("probe.grant_then_timeout_same_instant");
                    else if (best->kind == CK_INTR) PROBE("probe.grant_then_interrupt_same_instant");
                    else if (best->kind == CK_PREEMPT) PROBE("probe.grant_then_preempt_notice_same_instant");
                    else PROBE("probe.grant_then_other_same_instant");
                }
            }
        }
        if (best->kind == CK_INTR || best->kind == CK_PREEMPT) timers_after_notice(pr, best);
        if (best->kind == CK_TIMER) PROBE("c04.timer_delivered");
        if (best->kind == CK_INTR) PROBE("c04.interrupt_delivered");
        if (best->kind == CK_PREEMPT) PROBE("c04.preempt_notice_delivered");
        return true;
    }
    /* a resume that the harness sent to the process after it had been stopped in its yield: if the process has been restarted since
     * and yields again in the same instant, the resume finds a yielding process and is delivered - to the process, if not to the
     * yield it was once meant for */
    if (pr->op == OP_YIELD && want_kind == 0 && pr->late_resume_n > 0 && pr->late_resume_t == now)
        for (uint64_t k = 0; k < pr->late_resume_n && k < 4; k++) if (pr->late_sig[k] == ret) {
            pr->late_sig[k] = 0; PROBE("c04.late_resume_reached_the_restarted_process"); return true;
        }
    /* classify the failure */
    const char *sig = "unknown-signal";
    for (int i = 0; i < pr->ncs; i++) {
        const cause *c = &pr->cs[i];
        if (c->value != ret) continue;
        if (want_kind && c->kind != want_kind) continue;
        if (c->state == CS_DELIVERED) sig = "duplicate-signal";
        else if (c->state == CS_DEAD) sig = "stale-signal";
        else if (c->due != now) sig = "signal-at-wrong-time";
    }
    if (ret == CMB_PROCESS_SUCCESS) sig = (want_kind == CK_PEND) ? "waitproc-spurious-success" : (want_kind == CK_EV) ? "waitevent-spurious-success" : "spurious-success";
    else if (ret == CMB_PROCESS_STOPPED || ret == CMB_PROCESS_CANCELLED || ret == CMB_PROCESS_PREEMPTED) {
        static char s2[64]; snprintf(s2, sizeof s2, "%s/code%" PRId64, sig, -ret); sig = s2;
    }
    viol("C04", sig, "process %d: %s returned %" PRId64 " at t=%g with no matching undelivered cause (call at t=%g)",
         pr->id, opname[pr->op], ret, now, pr->call_t);
    /* the cancelled code of a condition cancel belongs to the wait it ended, not to whatever the process does next */
    if (ret == CMB_PROCESS_CANCELLED)
        for (int i = 0; i < pr->ncs; i++)
            if (pr->cs[i].kind == CK_GCANCEL && pr->cs[i].state == CS_DEAD && pr->cs[i].ref == GC_COND) {
                viol("C13", "cancelled-code-reached-a-later-call", "process %d was cancelled from a condition at t=%g, left that wait for another reason, and received the cancelled code at t=%g in %s",
                     pr->id, pr->cs[i].due, now, opname[pr->op]);
                break;
            }
    return false;
}

static void kill_call_causes(proc *pr, int kind)
{
    for (int i = 0; i < pr->ncs; i++)
        if (pr->cs[i].kind == kind && (pr->cs[i].state == CS_ARMED || pr->cs[i].state == CS_MAYBE)) pr->cs[i].state = CS_DEAD;
}

static int pq_first(int k)
{
    int best = -1;
    for (int i = 0; i < W.pqn[k]; i++) {
        if (best < 0) { best = i; continue; }
        const qitem *a = &W.pqm[k][i], *b = &W.pqm[k][best];
        if (a->prio > b->prio || (a->prio == b->prio && a->seq < b->seq)) best = i;
    }
    return best;
}

void mon_call_ret(proc *pr, int64_t ret)
{
    const double now = tnow();
    last_runner = pr->id;
    if (pr->finished) viol("C09", "ran-after-end", "process %d continued (returned from %s with %" PRId64 ") after it had ended", pr->id, opname[pr->op], ret);
    if (cmb_process_current() != pr->pp) viol("C03", "wrong-process", "process %d resumed but cmb_process_current() differs", pr->id);
    if (ret != CMB_PROCESS_SUCCESS) pr->last_nonzero_ret_seq = W.seq + 1;
    if (ret == CMB_PROCESS_PREEMPTED) pr->last_preempted_ret_seq = W.seq + 1;
    /* a timer that carried the success code and whose time has passed is history: it ended a yield, or it hit a hold or a wait that
     * went on waiting because the code was not its own wake-up */
    for (int i = 0; i < pr->ncs; i++)
        if (pr->cs[i].kind == CK_TIMER && pr->cs[i].value == CMB_PROCESS_SUCCESS && pr->cs[i].due < now && (pr->cs[i].state == CS_ARMED || pr->cs[i].state == CS_MAYBE)) pr->cs[i].state = CS_DEAD;
    switch (pr->op) {
    case OP_HOLD: {
        cause *hc = NULL;
        for (int i = 0; i < pr->ncs; i++) if (pr->cs[i].kind == CK_HOLD && pr->cs[i].callseq == pr->callseq) hc = &pr->cs[i];
        if (ret == CMB_PROCESS_SUCCESS) {
            if (now != pr->hold_due)
                viol("C04", "hold-wrong-time", "process %d: hold from t=%g due t=%g returned success at t=%g", pr->id, pr->call_t, pr->hold_due, now);
            if (hc) hc->state = CS_DELIVERED;
        } else {
            if (hc) hc->state = CS_DEAD;
            match_cause(pr, ret, 0, 0);
        }
        break; }
    case OP_YIELD:
        if (ret == CMB_PROCESS_SUCCESS) {
            bool ok = false;
            /* one of its timers carries the success code, is due now and has just fired (its event is gone); one that is certainly
             * armed before one that an interrupt may have cleared (whose event is gone for that reason) */
            for (int pass = 0; pass < 2 && !ok; pass++)
            for (int i = 0; i < pr->ncs && !ok; i++) {
                cause *c = &pr->cs[i];
                if (c->kind == CK_TIMER && c->value == CMB_PROCESS_SUCCESS && c->state == (pass == 0 ? CS_ARMED : CS_MAYBE) && c->due == now && !cmb_event_is_scheduled(c->handle)) {
                    c->state = CS_DELIVERED; ok = true; PROBE("c04.yield_ended_by_timer_with_success_code");
                    fired[nfired % MAXFIRED].h = c->handle; fired[nfired % MAXFIRED].t = now; nfired++;
                }
            }
            for (int i = 0; i < pr->ncs && !ok; i++) {
                cause *c = &pr->cs[i];
                if (c->kind == CK_RESUME && c->value == CMB_PROCESS_SUCCESS && c->state == CS_ARMED && c->due == now) { c->state = CS_DELIVERED; ok = true; }
            }
            if (!ok) viol("C04", "spurious-success/yield", "process %d: yield returned success at t=%g, nobody resumed it with that value", pr->id, now);
        }
        else match_cause(pr, ret, 0, 0);
        break;
    case OP_WAITP:
        if (pr->arg == 1) {
            if (ret != CMB_PROCESS_SUCCESS || now != pr->call_t) viol("C04", "waitproc-finished-target", "wait for an already finished process returned %" PRId64, ret);
        } else if (ret == CMB_PROCESS_SUCCESS || ret == CMB_PROCESS_STOPPED) {
            if (match_cause(pr, ret, CK_PEND, pr->obj)) PROBE("c09.waiter_resumed");
        } else match_cause(pr, ret, 0, 0);
        kill_call_causes(pr, CK_PEND);
        break;
    case OP_WAITE:
        if (ret == CMB_PROCESS_SUCCESS || ret == CMB_PROCESS_CANCELLED) match_cause(pr, ret, CK_EV, pr->obj);
        else match_cause(pr, ret, 0, 0);
        kill_call_causes(pr, CK_EV);
        break;
    case OP_WAITT: {
        const uint64_t h = pr->waitt_handle;
        bool fired_now = timer_fired_at(h, now);
        if (!fired_now && pr->obj >= 0 && pr->obj < W.np && !cmb_event_is_scheduled(h)) {
            /* a timer that carries the success code leaves no trace in its owner when it hits a hold or a wait that goes on
             * waiting: it has fired if it was due now, is gone, and nobody cancelled or cleared it */
            const proc *o = &PR[pr->obj];
            for (int i = 0; i < o->ncs; i++)
                if (o->cs[i].kind == CK_TIMER && o->cs[i].handle == h && o->cs[i].value == CMB_PROCESS_SUCCESS && o->cs[i].due == now) {
                    if (o->cs[i].state == CS_ARMED || o->cs[i].state == CS_DELIVERED) fired_now = true;
                    else if (o->cs[i].state == CS_MAYBE) fired_now = (ret == CMB_PROCESS_SUCCESS);   /* armed between an interrupt and its delivery: cleared or not, see timers_after_notice */
                }
        }
        if (ret == CMB_PROCESS_SUCCESS || ret == CMB_PROCESS_CANCELLED) {
            if (cmb_event_is_scheduled(h))
                viol("C04", "waitevent-returned-early", "process %d: wait for timer event %" PRIu64 " of process %d returned %" PRId64 " at t=%g while the event is still scheduled", pr->id, h, pr->obj, ret, now);
            else if (ret == CMB_PROCESS_SUCCESS) {
                if (!fired_now)
                    viol("C04", "waitevent-spurious-success", "process %d: wait for timer event %" PRIu64 " of process %d returned success at t=%g but that timer did not fire now", pr->id, h, pr->obj, now);
                else PROBE("c04.awaited_timer_event_fired");
            } else {
                if (fired_now)
                    viol("C04", "waitevent-cancelled-but-executed", "process %d: wait for timer event %" PRIu64 " of process %d returned cancelled at t=%g although the timer fired", pr->id, h, pr->obj, now);
                else PROBE("c04.awaited_timer_event_cancelled");
            }
        } else match_cause(pr, ret, 0, 0);
        break; }
    case OP_ACQ: case OP_PRE: {
        const int r = pr->obj;
        if (ret == CMB_PROCESS_SUCCESS) {
            const int h = W.res_holder[r];
            if (h >= 0 && h != pr->id) {
                proc *v = &PR[h];
                if (pr->op == OP_PRE && W.res[r]->holder == pr->pp && !v->finished) {
                    /* preemption: v lost the resource */
                    v->holds_res[r] = false;
                    v->named_this_event = true;      /* the victim is taken out of whatever it waits for */
                    cause *c = cause_add(v, CK_PREEMPT, CMB_PROCESS_PREEMPTED, now, true); c->ref = r;
                    PROBE("fault.resource_preempt");
                    if (v->op != OP_NONE) { g_stats.faults++; if (v->op == OP_PACQ || v->op == OP_PPRE) PROBE("probe.preempted_from_resource_while_mid_pool_acquire"); }
                } else {
                    viol("C05", "two-holders", "process %d got resource %d at t=%g while process %d holds it", pr->id, r, now, h);
                    v->holds_res[r] = false;
                }
            }
            W.res_holder[r] = pr->id; pr->holds_res[r] = true;
            if (pr->rel_evseq[r] == W.seq + 1) PROBE("probe.release_and_reacquire_in_one_event");
            if (now == pr->call_t && W.seq > 0) PROBE("res.acquired_without_wait");
        } else match_cause(pr, ret, 0, 0);
        kill_call_causes(pr, CK_GCANCEL);
        break; }
    case OP_PACQ: case OP_PPRE: {
        const int p = pr->obj;
        if (pr->op == OP_PPRE) { pr->ran_this_event = true; scan_pool_victims(); }
        const uint64_t lib = cmb_resourcepool_held_by_process(W.pool[p], pr->pp);
        if (ret == CMB_PROCESS_SUCCESS) {
            if (lib != pr->pool_at_call + (uint64_t)pr->arg)
                viol("C07", "acquire-accounting", "process %d: successful acquire of %" PRId64 " leaves it holding %" PRIu64 " (held %" PRIu64 " before)", pr->id, pr->arg, lib, pr->pool_at_call);
        } else {
            const uint64_t expect = pr->victim_in_call ? 0 : pr->pool_at_call;
            if (lib != expect)
                viol("C07", pr->victim_in_call ? "victim-keeps-units" : "interrupted-acquire-holding",
                     "process %d: acquire of %" PRId64 " returned %" PRId64 " holding %" PRIu64 ", expected %" PRIu64 " (held %" PRIu64 " at the call%s)",
                     pr->id, pr->arg, ret, lib, expect, pr->pool_at_call, pr->victim_in_call ? ", preempted during the call" : "");
            if (lib == pr->pool_at_call && pr->pool_at_call > 0) PROBE("probe.pool_rollback_with_initial_holding");
            if (lib == 0 && pr->pool_at_call == 0) PROBE("probe.pool_rollback_without_initial_holding");
            match_cause(pr, ret, 0, 0);
        }
        pr->pool_held[p] = lib;
        kill_call_causes(pr, CK_GCANCEL);
        break; }
    case OP_BPUT: case OP_BGET:
        fold_buffer(pr);
        if (ret == CMB_PROCESS_SUCCESS) {
            if (pr->op == OP_BPUT && pr->bufvar != 0) viol("C11", "put-success-remaining", "successful put of %" PRIu64 " reports %" PRIu64 " remaining", pr->buf_req, pr->bufvar);
            if (pr->op == OP_BGET && pr->bufvar != pr->buf_req) viol("C11", "get-success-amount", "successful get of %" PRIu64 " reports %" PRIu64, pr->buf_req, pr->bufvar);
        } else {
            if (pr->bufvar > pr->buf_req) viol("C11", "partial-amount-range", "interrupted transfer of %" PRIu64 " reports %" PRIu64, pr->buf_req, pr->bufvar);
            match_cause(pr, ret, 0, 0);
        }
        kill_call_causes(pr, CK_GCANCEL);
        break;
    case OP_QPUT:
        if (ret == CMB_PROCESS_SUCCESS) {
            const int q = pr->obj;
            if (W.oqn[q] >= MAXQ) { W.stop_judging = true; break; }
            W.oqm[q][W.oqn[q]].v = (void *)(uintptr_t)pr->arg; W.oqm[q][W.oqn[q]].seq = W.sigctr++; W.oqn[q]++;
        } else match_cause(pr, ret, 0, 0);
        kill_call_causes(pr, CK_GCANCEL);
        break;
    case OP_QGET:
        if (ret == CMB_PROCESS_SUCCESS) {
            const int q = pr->obj;
            if (W.oqn[q] == 0) viol("C12", "invented-object", "get from queue %d delivered %p but the model queue is empty", q, pr->objloc);
            else {
                if (W.oqm[q][0].v != pr->objloc) {
                    bool elsewhere = false;
                    for (int i = 1; i < W.oqn[q]; i++) if (W.oqm[q][i].v == pr->objloc) elsewhere = true;
                    viol("C12", elsewhere ? "fifo-order" : "invented-object", "get from queue %d delivered %p, the oldest queued object is %p", q, pr->objloc, W.oqm[q][0].v);
                }
                memmove(&W.oqm[q][0], &W.oqm[q][1], (size_t)(W.oqn[q] - 1) * sizeof(qitem)); W.oqn[q]--;
            }
        } else {
            if (pr->objloc != NULL) viol("C12", "failed-get-delivered", "get returned %" PRId64 " but stored %p", ret, pr->objloc);
            match_cause(pr, ret, 0, 0);
        }
        kill_call_causes(pr, CK_GCANCEL);
        break;
    case OP_KPUT:
        if (ret == CMB_PROCESS_SUCCESS) {
            const int k = pr->obj;
            if (W.pqn[k] >= MAXQ) { W.stop_judging = true; break; }
            for (int i = 0; i < W.pqn[k]; i++) if (pr->kput_handle != 0 && W.pqm[k][i].handle == pr->kput_handle)
                viol("C12", "pq-handle-dup", "put returned handle %" PRIu64 " which is still queued", pr->kput_handle);
            qitem *it = &W.pqm[k][W.pqn[k]++];
            it->v = pr->objloc; it->prio = pr->arg; it->handle = pr->kput_handle; it->seq = W.sigctr++;
            if (pr->kput_handle && W.pq_nh[k] < 256) W.pq_handles[k][W.pq_nh[k]++] = pr->kput_handle;
        } else match_cause(pr, ret, 0, 0);
        kill_call_causes(pr, CK_GCANCEL);
        break;
    case OP_KGET:
        if (ret == CMB_PROCESS_SUCCESS) {
            const int k = pr->obj;
            const int f = pq_first(k);
            if (f < 0) viol("C12", "invented-object", "get from priority queue %d delivered %p but the model queue is empty", k, pr->objloc);
            else {
                int got = -1;
                for (int i = 0; i < W.pqn[k]; i++) if (W.pqm[k][i].v == pr->objloc) got = i;
                if (got != f) viol("C12", got < 0 ? "invented-object" : "priority-order", "get from priority queue %d delivered %p, expected %p (prio %" PRId64 ")", k, pr->objloc, W.pqm[k][f].v, W.pqm[k][f].prio);
                const int rm = got >= 0 ? got : f;
                memmove(&W.pqm[k][rm], &W.pqm[k][rm + 1], (size_t)(W.pqn[k] - rm - 1) * sizeof(qitem)); W.pqn[k]--;
            }
        } else {
            if (pr->objloc != NULL) viol("C12", "failed-get-delivered", "priority-queue get returned %" PRId64 " but stored %p", ret, pr->objloc);
            match_cause(pr, ret, 0, 0);
        }
        kill_call_causes(pr, CK_GCANCEL);
        break;
    case OP_CWAIT:
        wk_return(pr, ret);
        if (ret == CMB_PROCESS_SUCCESS) {
            if (!(pr->cond_true_seen && pr->cond_true_time == now))
                viol("C13", "success-without-true-evaluation", "process %d: condition wait returned success at t=%g without a true evaluation of its predicate at that time", pr->id, now);
            else PROBE("c13.resumed_after_true_evaluation");
        } else match_cause(pr, ret, 0, 0);
        kill_call_causes(pr, CK_GCANCEL);
        break;
    default: break;
    }
}

/* ------------------------------------------------------------------ C06 for conditions: order among the waiters one signal wakes
 * One pass of the library over a condition's waiters (an explicit or a forwarded signal) is recognised as a maximal run of
 * predicate evaluations for that condition with no harness step in between and no waiter evaluated twice.  The waiters it finds
 * satisfied are woken "by the same signal"; those that then resume with success in this instant must do so by rank
 * (priority, then waiting-since), unless a priority was changed in between. */
typedef struct { bool valid, returned, clean; uint64_t batch; int64_t prio; double entry, t; uint32_t prio_changes; } wakerec;
static wakerec wk[MAXP];
static uint64_t wk_batch, wk_activity; static int wk_cond = -1; static bool wk_seen[MAXP];
static void wk_reset(void) { memset(wk, 0, sizeof wk); memset(wk_seen, 0, sizeof wk_seen); wk_batch = 0; wk_cond = -1; wk_activity = 0; g_harness_activity = 0; }
static void wk_eval(proc *pr, int c, bool result)
{
    if (c != wk_cond || g_harness_activity != wk_activity || wk_seen[pr->id]) {
        wk_batch++; wk_cond = c; wk_activity = g_harness_activity; memset(wk_seen, 0, sizeof wk_seen);
    }
    wk_seen[pr->id] = true;
    wakerec *r = &wk[pr->id];
    r->valid = false;
    if (!result || c < 0 || c >= W.ncond) return;
    const struct cmi_hashheap *hp = &W.cond[c]->guard.priority_queue;
    const uint64_t key = (uint64_t)(uintptr_t)pr->pp;
    if (!cmi_hashheap_is_enqueued(hp, key)) return;
    r->valid = true; r->returned = false; r->clean = true; r->batch = wk_batch; r->prio = pr->pp->priority; r->entry = cmi_hashheap_dkey(hp, key);
    r->t = tnow(); r->prio_changes = pr->prio_changes;
}
static void wk_return(proc *pr, int64_t ret)
{
    wakerec *r = &wk[pr->id];
    if (!r->valid) return;
    if (ret != CMB_PROCESS_SUCCESS || r->t != tnow()) { r->valid = false; return; }
    r->clean = (pr->prio_changes == r->prio_changes);
    int nsame = 0;
    for (int y = 0; y < W.np; y++) {
        const wakerec *o = &wk[y];
        if (y == pr->id || !o->valid || o->batch != r->batch) continue;
        nsame++;
        if (!o->returned || !o->clean || !r->clean || o->t != r->t) continue;
        /* y resumed before pr: pr must not rank strictly before y */
        if (r->prio > o->prio || (r->prio == o->prio && r->entry < o->entry)) {
            viol("C06", "lower-ranked-served-first/condition", "condition %d: one signal at t=%g woke process %d (priority %" PRId64 ", waiting since %g) and process %d (priority %" PRId64 ", waiting since %g); %d resumed first",
                 pr->obj, r->t, pr->id, r->prio, r->entry, y, o->prio, o->entry, y);
        } else PROBE("c06.condition_wake_order_compared");
    }
    if (nsame) PROBE("c06.condition_signal_woke_several");
    r->returned = true;
}

/* ------------------------------------------------------------------ C13 evaluation log */
static bool in_explicit; static int explicit_cond; static int expl_n; static int expl_pid[MAXGENT]; static int expl_evals[MAXGENT]; static bool expl_res[MAXGENT];
void mon_pred_eval(int pid, const struct cmb_process *prc, bool result)
{
    proc *pr = &PR[pid];
    if (prc != pr->pp) viol("C13", "predicate-wrong-process", "predicate of process %d evaluated with another process pointer", pid);
    if (result) { pr->cond_true_seen = true; pr->cond_true_time = tnow(); }
    evalcount[pid]++;
    /* C07 says "always": application code that runs in the middle of a library call (a predicate evaluated through a forwarded
     * signal) must see consistent books too */
    for (int p = 0; p < W.npool; p++) {
        uint64_t sum = 0;
        for (int i = 0; i < W.np; i++) if (PR[i].created) sum += cmb_resourcepool_held_by_process(W.pool[p], PR[i].pp);
        if (sum != cmb_resourcepool_in_use(W.pool[p]))
            viol("C07", "in-use-sum/seen-by-predicate", "pool %d: a predicate evaluated inside a library call sees in_use=%" PRIu64 " while the processes hold %" PRIu64 " in total", p, cmb_resourcepool_in_use(W.pool[p]), sum);
    }
    wk_eval(pr, pr->op == OP_CWAIT ? pr->obj : -1, result);
    TR3("pred", pid, result, in_explicit);
    if (in_explicit) for (int i = 0; i < expl_n; i++) if (expl_pid[i] == pid) { expl_evals[i]++; expl_res[i] = result; }
    if (!in_explicit) PROBE("cond.forwarded_evaluation");
}
void mon_explicit_signal_begin(int c)
{
    gent tmp[MAXGENT];
    int g = -1;
    for (int k = 0; k < W.nguards; k++) if (W.guards[k].cls == GC_COND && W.guards[k].idx == c) g = k;
    expl_n = snapshot_guard(g, tmp);
    for (int i = 0; i < expl_n; i++) { expl_pid[i] = tmp[i].pid; expl_evals[i] = 0; expl_res[i] = false; }
    in_explicit = true; explicit_cond = g;
    if (expl_n >= 2) PROBE("cond.explicit_signal_ge2_waiters");
}
void mon_explicit_signal_end(int c)
{
    (void)c;
    in_explicit = false;
    for (int i = 0; i < expl_n; i++) {
        if (expl_pid[i] < 0) continue;
        proc *pr = &PR[expl_pid[i]];
        if (expl_evals[i] != 1) { viol("C13", "explicit-signal-evaluation-count", "explicit signal evaluated the predicate of waiter %d %d times", pr->id, expl_evals[i]); continue; }
        const bool still = in_guard(explicit_cond, pr);
        if (expl_res[i] && still) viol("C13", "satisfied-waiter-kept", "waiter %d had a true predicate at the signal but stayed queued", pr->id);
        if (!expl_res[i] && !still) viol("C13", "unsatisfied-waiter-woken", "waiter %d had a false predicate at the signal but was taken off the queue", pr->id);
        if (expl_res[i] && i > 0) PROBE("probe.cond_true_nonhead_explicit");
    }
}

/* a step that is certain to signal an observed waiting list (resource release, pool release): every waiter of every observing
 * condition has to be evaluated during the call, and the satisfied ones taken off the queue */
static int fw_n; static int fw_pid[MAXGENT]; static int fw_cond[MAXGENT]; static uint64_t fw_evals0[MAXGENT];
void mon_forward_expected_begin(int cls, int idx)
{
    fw_n = 0;
    int g = -1;
    for (int k = 0; k < W.nguards; k++) if (W.guards[k].cls == cls && W.guards[k].idx == idx) g = k;
    if (g < 0) return;
    for (int c = 0; c < W.ncond; c++) {
        if (!cond_observes[c][g]) continue;
        gent tmp[MAXGENT];
        int cg = -1;
        for (int k = 0; k < W.nguards; k++) if (W.guards[k].cls == GC_COND && W.guards[k].idx == c) cg = k;
        const int n = snapshot_guard(cg, tmp);
        for (int i = 0; i < n && fw_n < MAXGENT; i++) if (tmp[i].pid >= 0) { fw_pid[fw_n] = tmp[i].pid; fw_cond[fw_n] = cg; fw_evals0[fw_n] = evalcount[tmp[i].pid]; fw_n++; }
    }
}
void mon_forward_expected_end(void)
{
    for (int i = 0; i < fw_n; i++) {
        const proc *pr = &PR[fw_pid[i]];
        if (evalcount[pr->id] == fw_evals0[i])
            viol("C13", "forwarded-signal-missing", "the observed waiting list was signalled by a release but the predicate of waiter %d of the observing condition was not evaluated", pr->id);
        else PROBE("c13.forwarded_signal_reached_waiter");
    }
    fw_n = 0;
}

/* ------------------------------------------------------------------ C09 body entry */
void mon_body_entry(proc *pr, struct cmb_process *me)
{
    last_runner = pr->id;
    if (me != pr->pp) viol("C03", "start-args", "process %d started with another process pointer", pr->id);
    if (cmb_process_current() != pr->pp) viol("C03", "wrong-process", "process %d started but is not current", pr->id);
    if (!pr->start_pending) viol("C09", "started-without-start", "process %d begins executing although no start is pending", pr->id);
    if (pr->gen > 1) {
        PROBE("c09.restart_ran");
        if (!cmi_slist_is_empty(&me->awaits)) viol("C09", "restart-with-awaits", "restarted process %d still awaits something from its previous life", pr->id);
        if (!cmi_slist_is_empty(&me->resources)) viol("C09", "restart-with-holdings", "restarted process %d still holds something from its previous life", pr->id);
    }
}

/* ------------------------------------------------------------------ C14 recording */
static struct cmb_timeseries *history_of(int kind, int idx)
{
    switch (kind) {
        case 0: return cmb_resource_history(W.res[idx]);
        case 1: return cmb_resourcepool_get_history(W.pool[idx]);
        case 2: return cmb_buffer_history(W.buf[idx]);
        case 3: return cmb_objectqueue_history(W.oq[idx]);
        default: return cmb_priorityqueue_history(W.pq[idx]);
    }
}
static int nobj(int kind) { return kind == 0 ? W.nres : kind == 1 ? W.npool : kind == 2 ? W.nbuf : kind == 3 ? W.noq : W.npq; }

static void rec_finish(int kind, int idx)
{
    /* the recording window [t0,t1] is closed: compare the time-weighted mean with the exact average */
    /* several windows: the average is over the time during which recording was on (a gap is not recorded, whatever happened in it) */
    const double T = W.rec[kind][idx].on_time;
    const struct cmb_timeseries *ts = history_of(kind, idx);
    const uint64_t n = cmb_timeseries_count(ts);
    if (n < 2) { viol("C14", "too-few-samples", "recorded history has %" PRIu64 " samples after start and stop", n); return; }
    if (ts->ta[0] != W.rec[kind][idx].t0) viol("C14", "first-sample-time", "first sample at t=%g, recording started at t=%g", ts->ta[0], W.rec[kind][idx].t0);
    if (ts->ta[n - 1] != W.rec[kind][idx].t1) viol("C14", "last-sample-time", "last sample at t=%g, recording stopped at t=%g", ts->ta[n - 1], W.rec[kind][idx].t1);
    for (uint64_t i = 1; i < n; i++) if (ts->ta[i] < ts->ta[i - 1]) { viol("C14", "time-order", "sample times decrease at index %" PRIu64, i); break; }
    if (!(T > 0.0) || T > 1e12) return;
    struct cmb_wtdsummary ws;
    cmb_wtdsummary_initialize(&ws);
    (void)cmb_timeseries_summarize(ts, &ws);
    const double mean = cmb_wtdsummary_mean(&ws);
    const double exact = W.rec[kind][idx].integral / T;
    /* rounding: relative to the mean, plus what double arithmetic on the largest recorded value can lose (a level near 2^64 held for 1e-9) */
    double xmax = 0.0;
    for (uint64_t i = 0; i < n; i++) if (fabs(ts->ds.xa[i]) > xmax) xmax = fabs(ts->ds.xa[i]);
    const double tol = 1e-9 * (fabs(exact) > 1.0 ? fabs(exact) : 1.0) + 1e-12 * xmax;
    if (!(fabs(mean - exact) <= tol))
        viol("C14", W.rec[kind][idx].windows > 1 ? "time-average/several-windows" : "time-average", "kind %d object %d: time-weighted mean %.12g differs from the exact average %.12g over [%g,%g] (%d recording window(s), %g time units recorded)", kind, idx, mean, exact,
             W.rec[kind][idx].t0, W.rec[kind][idx].t1, W.rec[kind][idx].windows, T);
    PROBE("c14.mean_compared");
    if (W.rec[kind][idx].changes >= 3) PROBE("c14.window_with_ge3_changes");
    if (n > 1024) PROBE("c14.history_gt_1024_samples");
}

/* the event that advanced the clock may itself stop a recording: settle the instant that just ended first */
static void rec_catch_up(int kind, int idx)
{
    if (!W.rec[kind][idx].on || !rec_cand[kind][idx].valid || !(tnow() > W.now)) return;
    W.rec[kind][idx].integral += W.rec[kind][idx].last_v * (W.now - W.rec[kind][idx].last_t);
    if (rec_cand[kind][idx].v != W.rec[kind][idx].last_v) W.rec[kind][idx].changes++;
    W.rec[kind][idx].last_t = W.now; W.rec[kind][idx].last_v = rec_cand[kind][idx].v;
    rec_cand[kind][idx].valid = false;
}

void mon_record(int kind, int idx, bool on)
{
    if (nobj(kind) == 0) return;
    idx %= nobj(kind);
    rec_catch_up(kind, idx);
    if (on) {
        if (W.rec[kind][idx].on || W.rec[kind][idx].windows >= 3) return;     /* at most three recording windows per object per run */
        if (!W.rec[kind][idx].ever) { W.rec[kind][idx].t0 = tnow(); W.rec[kind][idx].integral = 0.0; W.rec[kind][idx].on_time = 0.0; }
        else PROBE("c14.recording_restarted");
        W.rec[kind][idx].ever = W.rec[kind][idx].on = true;
        W.rec[kind][idx].windows++;
        W.rec[kind][idx].win_t0 = W.rec[kind][idx].last_t = tnow();
        W.rec[kind][idx].last_v = (double)true_state(kind, idx);
        TR2("recon", kind, idx);
        switch (kind) {
            case 0: cmb_resource_start_recording(W.res[idx]); break;
            case 1: cmb_resourcepool_start_recording(W.pool[idx]); break;
            case 2: cmb_buffer_recording_start(W.buf[idx]); break;
            case 3: cmb_objectqueue_recording_start(W.oq[idx]); break;
            default: cmb_priorityqueue_recording_start(W.pq[idx]); break;
        }
    } else {
        if (!W.rec[kind][idx].on) return;
        W.rec[kind][idx].on = false; W.rec[kind][idx].done = true;
        W.rec[kind][idx].t1 = tnow();
        W.rec[kind][idx].on_time += tnow() - W.rec[kind][idx].win_t0;
        W.rec[kind][idx].integral += W.rec[kind][idx].last_v * (tnow() - W.rec[kind][idx].last_t);
        TR2("recoff", kind, idx);
        switch (kind) {
            case 0: cmb_resource_stop_recording(W.res[idx]); break;
            case 1: cmb_resourcepool_stop_recording(W.pool[idx]); break;
            case 2: cmb_buffer_recording_stop(W.buf[idx]); break;
            case 3: cmb_objectqueue_recording_stop(W.oq[idx]); break;
            default: cmb_priorityqueue_recording_stop(W.pq[idx]); break;
        }
        rec_finish(kind, idx);
    }
}

/* ------------------------------------------------------------------ after every event */
void mon_after_event(void)
{
    W.seq++;
    W.now = tnow();
    const double now = W.now;
    if ((_mm_getcsr() & ~0x3fu) != main_csr) viol("C03", "mxcsr", "dispatcher MXCSR changed to %#x across an event", _mm_getcsr());
    if (now < t_before) viol("C01", "clock-backwards", "clock went from %g to %g", t_before, now);

    /* in situ C02 */
    for (int g = 0; g < W.nguards; g++) heap_struct_check(&W.guards[g].g->priority_queue, gcname(W.guards[g].cls));
    for (int p = 0; p < W.npool; p++) heap_struct_check(&W.pool[p]->holders, "pool holders");
    for (int k = 0; k < W.npq; k++) heap_struct_check(&W.pq[k]->queue, "priority queue");

    /* C05 */
    for (int r = 0; r < W.nres; r++) {
        const struct cmb_process *lh = W.res[r]->holder;
        const int lib = lh ? proc_of(lh) : -1;
        const int bel = W.res_holder[r];
        if (lib != bel) {
            const char *sig = "holder-mismatch";
            if (lib >= 0 && PR[lib].finished) sig = "held-by-finished-process";
            else if (lib < 0 && lh == NULL && bel >= 0) sig = "holder-lost-resource";
            viol("C05", sig, "resource %d: library holder is process %d, the history says process %d (t=%g)", r, lib, bel, now);
        }
        const uint64_t iu = cmb_resource_in_use(W.res[r]), av = cmb_resource_available(W.res[r]);
        if (iu + av != 1 || (iu == 1) != (lh != NULL)) viol("C05", "query-mismatch", "resource %d: in_use=%" PRIu64 " available=%" PRIu64, r, iu, av);
        int nh = 0;
        for (int i = 0; i < W.np; i++) {
            const uint64_t hb = cmb_resource_held_by_process(W.res[r], PR[i].pp);
            nh += (int)hb;
            const int rec = count_holdable(PR[i].pp, &W.res[r]->core);
            if (rec != (int)hb) viol("C05", "own-record-mismatch", "resource %d: process %d has %d entries for it in its own list, held_by_process says %" PRIu64, r, i, rec, hb);
        }
        if (nh > 1) viol("C05", "two-holders", "resource %d is reported held by %d processes", r, nh);
    }

    /* C07 */
    scan_pool_victims();
    for (int p = 0; p < W.npool; p++) {
        uint64_t sum = 0;
        for (int i = 0; i < W.np; i++) {
            proc *pr = &PR[i];
            const uint64_t lib = cmb_resourcepool_held_by_process(W.pool[p], pr->pp);
            sum += lib;
            const int rec = count_holdable(pr->pp, &W.pool[p]->core);
            if (rec != (lib > 0 ? 1 : 0)) viol("C07", "own-record-mismatch", "pool %d: process %d holds %" PRIu64 " but has %d entries for the pool in its own list", p, i, lib, rec);
            const bool midcall = (pr->op == OP_PACQ || pr->op == OP_PPRE) && pr->obj == p && !pr->finished;
            if (0) {
            } else if (!midcall && lib != pr->pool_held[p] && !pr->finished) {
                viol("C07", "holding-mismatch", "pool %d: process %d holds %" PRIu64 ", the history says %" PRIu64, p, i, lib, pr->pool_held[p]);
                pr->pool_held[p] = lib;
            } else if (pr->finished && lib != 0) {
                viol("C07", "held-by-finished-process", "pool %d: finished process %d still holds %" PRIu64, p, i, lib);
            } else if (midcall && lib < pr->pool_at_call && !pr->victim_in_call) {
                viol("C07", "holding-mismatch", "pool %d: process %d holds %" PRIu64 " mid-acquire, less than the %" PRIu64 " it had at the call", p, i, lib, pr->pool_at_call);
            }
        }
        const uint64_t iu = cmb_resourcepool_in_use(W.pool[p]), av = cmb_resourcepool_available(W.pool[p]);
        if (iu != sum) viol("C07", "in-use-sum", "pool %d: in_use=%" PRIu64 " but the processes hold %" PRIu64 " in total", p, iu, sum);
        if (iu > W.poolcap[p]) viol("C07", "over-capacity", "pool %d: in_use=%" PRIu64 " exceeds capacity %" PRIu64, p, iu, W.poolcap[p]);
        if (av != W.poolcap[p] - iu) viol("C07", "available-mismatch", "pool %d: available=%" PRIu64 " with in_use=%" PRIu64 " capacity %" PRIu64, p, av, iu, W.poolcap[p]);
    }

    /* C06 */
    for (int g = 0; g < W.nguards; g++) {
        if (W.guards[g].cls == GC_COND) continue;
        gent after[MAXGENT];
        const int na = snapshot_guard(g, after);
        if (na >= 9) PROBE("probe.guard_ge9_waiters");
        if (na >= 17) PROBE("probe.guard_ge17_waiters");
        for (int b = 0; b < ngbefore[g]; b++) {
            const int gp = gbefore[g][b].pid;
            if (gp < 0) continue;
            bool still = false;
            for (int a = 0; a < na; a++) if (after[a].pid == gp) still = true;
            if (still) continue;
            const proc *G = &PR[gp];
            if (G->ran_this_event || G->named_this_event || (G->finished && G->end_seq == ev_seq)) continue;
            /* G was granted (woken by a signal) in this event */
            PROBE("c06.grant_observed");
            for (int b2 = 0; b2 < ngbefore[g]; b2++) {
                const int kp = gbefore[g][b2].pid;
                if (kp < 0 || kp == gp || PR[kp].ran_this_event || PR[kp].prio_touched_this_event || G->prio_touched_this_event) continue;   /* a waiter that ran left and re-entered: it did not keep waiting */
                int a2 = -1;
                for (int a = 0; a < na; a++) if (after[a].pid == kp) a2 = a;
                if (a2 < 0) continue;
                const bool earlier = gbefore[g][b2].etime < gbefore[g][b].etime
                                     || (gbefore[g][b2].etime == gbefore[g][b].etime && garr[g][kp] != 0 && garr[g][gp] != 0 && garr[g][kp] < garr[g][gp]);
                const bool before_rank = gbefore[g][b2].prio > gbefore[g][b].prio || (gbefore[g][b2].prio == gbefore[g][b].prio && earlier);
                const int64_t gprio_now = G->pp->priority;
                const bool after_rank = after[a2].prio > gprio_now || (after[a2].prio == gprio_now && after[a2].etime <= gbefore[g][b].etime && earlier);
                if (gbefore[g][b2].prio == gbefore[g][b].prio && gbefore[g][b2].etime == gbefore[g][b].etime) PROBE("c06.grant_among_same_instant_arrivals");
                if (before_rank && after_rank) {
                    char sig[64]; snprintf(sig, sizeof sig, "lower-ranked-served-first/%s", gcname(W.guards[g].cls));
                    viol("C06", sig, "process %d (priority %" PRId64 ", waiting since %g) was woken while process %d (priority %" PRId64 ", waiting since %g) kept waiting",
                         gp, gbefore[g][b].prio, gbefore[g][b].etime, kp, gbefore[g][b2].prio, gbefore[g][b2].etime);
                }
                if (gbefore[g][b2].prio != gbefore[g][b].prio) PROBE("c06.grant_among_mixed_priorities");
            }
        }
        /* "in order of the time at which they started waiting": a waiter that stays in the list without running keeps its entry
         * time (a priority change must not touch it), and whoever enters the list does so with the current time */
        for (int a = 0; a < na; a++) {
            if (after[a].pid < 0) continue;
            int b = -1;
            for (int k = 0; k < ngbefore[g]; k++) if (gbefore[g][k].pid == after[a].pid) b = k;
            if (b >= 0 && !PR[after[a].pid].ran_this_event && after[a].etime != gbefore[g][b].etime)
                viol("C06", "entry-time-changed", "process %d kept waiting in a %s list but its waiting-since time changed from %g to %g", after[a].pid, gcname(W.guards[g].cls), gbefore[g][b].etime, after[a].etime);
            if (b < 0 || PR[after[a].pid].ran_this_event) {      /* entered (or left and entered again) in this event */
                /* its place among same-instant arrivals is the one it took when the call began to wait: a process that comes
                 * back to the list inside one call has been in line all along */
                const proc *q = &PR[after[a].pid];
                const bool same_call = q->op != OP_NONE && !q->finished && guard_of_wait(q) == g && garr_call[g][after[a].pid] == q->callseq && garr[g][after[a].pid] != 0;
                if (same_call) PROBE("c06.rewait_keeps_arrival_stamp");
                else { garr[g][after[a].pid] = ev_seq + 1; garr_call[g][after[a].pid] = q->op != OP_NONE ? q->callseq : 0; }
            }
            /* a process that is served in part, or robbed of a grant, and waits again inside the same call has been waiting since
             * that call began: it keeps its place among its equals */
            if (PR[after[a].pid].op != OP_NONE && !PR[after[a].pid].finished && guard_of_wait(&PR[after[a].pid]) == g
                && after[a].etime != PR[after[a].pid].call_t && after[a].etime == now && PR[after[a].pid].call_t < now)
                viol("C06", "waiting-since-reset-within-a-call", "process %d waits in a %s list since t=%g inside one call, but re-entered the list at t=%g as if it had just arrived",
                     after[a].pid, gcname(W.guards[g].cls), PR[after[a].pid].call_t, now);
            if (b < 0 && after[a].etime != now && after[a].etime != PR[after[a].pid].call_t)
                viol("C06", "entry-time-wrong", "process %d entered a %s list at t=%g with waiting-since time %g", after[a].pid, gcname(W.guards[g].cls), now, after[a].etime);
        }
        /* the waiting list's sort key must follow the waiter's current priority */
        for (int a = 0; a < na; a++)
            if (after[a].pid >= 0 && after[a].prio != PR[after[a].pid].pp->priority)
                viol("C06", "priority-not-repositioned", "process %d waits with sort priority %" PRId64 " but its priority is %" PRId64, after[a].pid, after[a].prio, PR[after[a].pid].pp->priority);
    }

    for (int e = 0; e < MAXHEV; e++) hev_check_vanished(e);

    /* a timer that carries the success code leaves no trace in a process it finds in a hold or a wait (the call goes on waiting):
     * it has fired if it was due, its event is gone and nobody cancelled or cleared it (those mark the cause at once) */
    for (int i = 0; i < W.np; i++) {
        proc *pr = &PR[i];
        if (!pr->started || pr->finished) continue;
        /* a preemption clears the victim's timers when it happens, before the notice is delivered: then the event is gone because
         * it was cancelled */
        bool preempted = false;
        for (int k = 0; k < pr->ncs; k++) if (pr->cs[k].kind == CK_PREEMPT && pr->cs[k].state == CS_ARMED) preempted = true;
        for (int k = 0; k < pr->ncs; k++) {
            cause *c = &pr->cs[k];
            if (c->kind != CK_TIMER || c->value != CMB_PROCESS_SUCCESS || c->state != CS_ARMED || c->due > now || cmb_event_is_scheduled(c->handle)) continue;
            if (preempted) { c->state = CS_DEAD; continue; }
            c->state = CS_DELIVERED;
            fired[nfired % MAXFIRED].h = c->handle; fired[nfired % MAXFIRED].t = now; nfired++;
            PROBE("c04.timer_with_success_code_hit_a_call_that_went_on_waiting");
        }
    }

    /* C13: remember whether a waiter's predicate has been false while it waited */
    for (int i = 0; i < W.np; i++) if (PR[i].op == OP_CWAIT && !PR[i].finished) {
        if (!pred_now(i)) PR[i].cond_seen_false = true;
        else if (!pred_observed(&PR[i], PR[i].obj)) PR[i].cond_seen_false = false;   /* became true while nobody forwards the change: not owed a wake-up */
    }

    /* C11 */
    for (int i = 0; i < W.np; i++) if (!PR[i].finished) fold_buffer(&PR[i]);
    for (int b = 0; b < W.nbuf; b++) {
        const uint64_t lvl = cmb_buffer_level(W.buf[b]);
        if (W.buf_got[b] > W.buf_put[b] || (unsigned __int128)lvl != W.buf_put[b] - W.buf_got[b])
            viol("C11", "level-conservation", "buffer %d: level %" PRIu64 " but put (low 64 bits) %" PRIu64 " minus got %" PRIu64 ", exact difference %s%" PRIu64 " (t=%g)", b, lvl,
                 (uint64_t)W.buf_put[b], (uint64_t)W.buf_got[b], (W.buf_put[b] - W.buf_got[b]) >> 64 ? ">= 2^64 + " : "", (uint64_t)(W.buf_put[b] - W.buf_got[b]), now);
        if (lvl > W.bufcap[b]) viol("C11", "over-capacity", "buffer %d: level %" PRIu64 " above capacity %" PRIu64, b, lvl, W.bufcap[b]);
        if (cmb_buffer_space(W.buf[b]) != W.bufcap[b] - lvl) viol("C11", "space-mismatch", "buffer %d: space %" PRIu64 " with level %" PRIu64, b, cmb_buffer_space(W.buf[b]), lvl);
    }

    /* C12 */
    for (int q = 0; q < W.noq; q++) {
        const uint64_t len = cmb_objectqueue_length(W.oq[q]);
        if (len != (uint64_t)W.oqn[q]) viol("C12", "length-mismatch", "queue %d: length %" PRIu64 ", %d objects were put and not yet got", q, len, W.oqn[q]);
        if (len > W.oqcap[q]) viol("C12", "over-capacity", "queue %d: length %" PRIu64 " above capacity %" PRIu64, q, len, W.oqcap[q]);
        if (cmb_objectqueue_space(W.oq[q]) != W.oqcap[q] - len) viol("C12", "space-mismatch", "queue %d: space disagrees with length", q);
        for (int i = 0; i < W.oqn[q] && i < 6; i++) {
            int first = i;
            for (int j = 0; j < i; j++) if (W.oqm[q][j].v == W.oqm[q][i].v) { first = j; break; }
            const uint64_t pos = cmb_objectqueue_position(W.oq[q], W.oqm[q][i].v);
            if (pos != (uint64_t)first + 1) viol("C12", "position-mismatch", "queue %d: position(%p)=%" PRIu64 ", delivery order says %d", q, W.oqm[q][i].v, pos, first + 1);
        }
        if (cmb_objectqueue_position(W.oq[q], (void *)(uintptr_t)0x7777770) != 0) viol("C12", "position-mismatch", "queue %d: an object that was never put has a position", q);
    }
    for (int k = 0; k < W.npq; k++) {
        const uint64_t len = cmb_priorityqueue_length(W.pq[k]);
        if (len != (uint64_t)W.pqn[k]) viol("C12", "length-mismatch", "priority queue %d: length %" PRIu64 ", model %d", k, len, W.pqn[k]);
        if (len > W.pqcap[k]) viol("C12", "over-capacity", "priority queue %d: length %" PRIu64 " above capacity %" PRIu64, k, len, W.pqcap[k]);
        if (cmb_priorityqueue_space(W.pq[k]) != W.pqcap[k] - len) viol("C12", "space-mismatch", "priority queue %d: space disagrees with length", k);
        for (int i = 0; i < W.pqn[k] && i < 8; i++) {
            const qitem *it = &W.pqm[k][i];
            if (it->handle == 0) continue;
            int rank = 1;
            for (int j = 0; j < W.pqn[k]; j++) if (j != i && (W.pqm[k][j].prio > it->prio || (W.pqm[k][j].prio == it->prio && W.pqm[k][j].seq < it->seq))) rank++;
            const uint64_t pos = cmb_priorityqueue_position(W.pq[k], it->handle);
            if (pos != (uint64_t)rank) viol("C12", "position-mismatch", "priority queue %d: position(handle %" PRIu64 ")=%" PRIu64 ", delivery order says %d", k, it->handle, pos, rank);
        }
        if (cmb_priorityqueue_position(W.pq[k], UINT64_C(0x7ffffffffff0)) != 0) viol("C12", "position-mismatch", "priority queue %d: a handle that was never issued has a position", k);
        for (int h = 0; h < W.pq_nh[k] && h < 4; h++) {          /* handles of objects already delivered or cancelled */
            const uint64_t hd = W.pq_handles[k][W.pq_nh[k] - 1 - h];
            bool queued = false;
            for (int j = 0; j < W.pqn[k]; j++) if (W.pqm[k][j].handle == hd) queued = true;
            if (!queued && cmb_priorityqueue_position(W.pq[k], hd) != 0) viol("C12", "position-mismatch", "priority queue %d: handle %" PRIu64 " of an object no longer queued has a position", k, hd);
        }
    }

    /* C09: state of ended processes right after the event in which they ended */
    for (int i = 0; i < W.np; i++) {
        proc *pr = &PR[i];
        if (pr->created && (cmb_process_context(pr->pp) != (void *)pr || cmb_process_priority(pr->pp) != pr->pp->priority || cmb_process_name(pr->pp)[0] != 'P'))
            viol("C03", "start-args", "process %d: the context / priority / name queries do not describe it", i);
        if (pr->started && !pr->finished && pr->ran_this_event && !pr->start_pending && cmb_process_exit_value(pr->pp) != NULL)
            viol("C09", "exit-value", "process %d has not ended but reports exit value %p", i, cmb_process_exit_value(pr->pp));
        if (!pr->finished || pr->end_seq != ev_seq) continue;
        if (cmb_process_status(pr->pp) != CMB_PROCESS_FINISHED) { viol("C09", "status-not-finished", "process %d ended (%d) but its status is %d", i, pr->endkind, (int)cmb_process_status(pr->pp)); continue; }
        if (cmb_process_exit_value(pr->pp) != pr->exitv) viol("C09", "exit-value", "process %d exit value %p, expected %p", i, cmb_process_exit_value(pr->pp), pr->exitv);
        for (int g = 0; g < W.nguards; g++) if (in_guard(g, pr)) viol("C09", "still-in-waiting-list", "ended process %d is still in the waiting list of a %s", i, gcname(W.guards[g].cls));
        if (!cmi_slist_is_empty(&pr->pp->resources)) viol("C09", "holdings-not-released", "ended process %d still has entries in its own list of holdings", i);
        /* "everything it held is released": the units it held count as in use no longer, nobody else's do */
        for (int p = 0; p < W.npool; p++) {
            uint64_t sum = 0;
            for (int k = 0; k < W.np; k++) sum += cmb_resourcepool_held_by_process(W.pool[p], PR[k].pp);
            if (cmb_resourcepool_held_by_process(W.pool[p], pr->pp) != 0 || (pool_evstart[p][i] > 0 && cmb_resourcepool_in_use(W.pool[p]) != sum))
                viol("C09", "units-not-returned", "process %d ended holding %" PRIu64 " units of pool %d; afterwards the pool counts %" PRIu64 " in use while the living processes hold %" PRIu64, i, pool_evstart[p][i], p, cmb_resourcepool_in_use(W.pool[p]), sum);
        }
        for (int r = 0; r < W.nres; r++)
            if (W.res[r]->holder == pr->pp) viol("C09", "resource-not-released", "ended process %d is still the holder of resource %d", i, r);
        if (!pr->start_pending) {
            /* not counting what the harness itself sent it after an earlier end in this instant (a resume for a process stopped in its
             * yield, which may since have been restarted and have ended again): such an event is dropped when its turn comes */
            uint64_t n = cmb_event_pattern_count(CMB_ANY_ACTION, pr->pp, CMB_ANY_OBJECT) - hev_count_for_subject(pr->pp);
            const uint64_t late = (pr->late_resume_n > 0 && pr->late_resume_t == now) ? pr->late_resume_n : 0;
            n = n > late ? n - late : 0;
            if (n != 0) viol("C09", "event-pending-for-ended-process", "%" PRIu64 " event(s) addressed to process %d are still scheduled right after the event in which it ended (t=%g)", n, i, now);
        }
    }
}

/* ------------------------------------------------------------------ instant boundaries */
static bool demand_true(int g)
{
    const guardref *gr = &W.guards[g];
    switch (gr->cls) {
        case GC_RES: return cmb_resource_available(W.res[gr->idx]) == 1;
        case GC_POOL: return cmb_resourcepool_available(W.pool[gr->idx]) > 0;
        case GC_BUF_FRONT: return cmb_buffer_level(W.buf[gr->idx]) > 0;
        case GC_BUF_REAR: return cmb_buffer_space(W.buf[gr->idx]) > 0;
        case GC_OQ_FRONT: return cmb_objectqueue_length(W.oq[gr->idx]) > 0;
        case GC_OQ_REAR: return cmb_objectqueue_space(W.oq[gr->idx]) > 0;
        case GC_PQ_FRONT: return cmb_priorityqueue_length(W.pq[gr->idx]) > 0;
        case GC_PQ_REAR: return cmb_priorityqueue_space(W.pq[gr->idx]) > 0;
        default: return false;
    }
}

static bool pred_observed(const proc *pr, int c)
{
    /* is every object the predicate reads observed by condition c (or is it a harness variable)? */
    extern int pred_kind_of(int pid, int *a);
    int a = 0;
    const int kind = pred_kind_of(pr->id, &a);
    int cls = -1, idx = 0;
    switch (kind) {
        case PR_VAR_GE: case PR_TRUE: case PR_FALSE: return true;
        case PR_RES_FREE: cls = GC_RES; idx = W.nres ? a % W.nres : 0; break;
        case PR_POOL_AVAIL_GE: cls = GC_POOL; idx = W.npool ? a % W.npool : 0; break;
        case PR_BUF_LEVEL_GE: cls = GC_BUF_FRONT; idx = W.nbuf ? a % W.nbuf : 0; break;
        case PR_OQ_LEN_GE: cls = GC_OQ_FRONT; idx = W.noq ? a % W.noq : 0; break;      /* a put signals the getters' list */
        case PR_BUF_SPACE_GE: cls = GC_BUF_REAR; idx = W.nbuf ? a % W.nbuf : 0; break;  /* a get signals the putters' list */
        default: return false;
    }
    for (int g = 0; g < W.nguards; g++) if (W.guards[g].cls == cls && W.guards[g].idx == idx) return cond_observes[c][g];
    return false;
}

void mon_boundary_eval(void)
{
    npend = 0;
    const double now = tnow();
    for (int i = 0; i < W.np; i++) {
        proc *pr = &PR[i];
        if (!pr->started || pr->finished) continue;
        for (int k = 0; k < pr->ncs; k++) {
            const cause *c = &pr->cs[k];
            if (c->state != CS_ARMED || !c->must || c->due > now) continue;
            if (c->kind == CK_TIMER) pend_viol("C04", "timer-not-delivered", "process %d: timer (signal %" PRId64 ") due at t=%g was neither delivered nor cancelled by the end of that instant", i, c->value, c->due);
            else if (c->kind == CK_PEND) pend_viol("C09", "waiter-not-resumed", "process %d waits for process %d which ended at t=%g, and was not resumed in that instant", i, c->ref, c->due);
            else if (c->kind == CK_EV) pend_viol("C04", "waitevent-overdue", "process %d waits for event %d which was %s at t=%g", i, c->ref, c->value ? "cancelled" : "executed", c->due);
            else if (c->kind == CK_GCANCEL) pend_viol("C13", "cancel-not-delivered", "process %d was cancelled from a waiting list at t=%g but not resumed with the cancelled code", i, c->due);
            else if (c->kind == CK_PREEMPT && pr->last_preempted_ret_seq <= c->born_seq)   /* one notice may stand for several preemptions in one instant, another signal may not stand for it */
                pend_viol(c->ref >= 100 ? "C07" : "C04", "preempt-notice-missing", "process %d lost %s %d by preemption at t=%g but was not notified in that instant", i, c->ref >= 100 ? "pool" : "resource", c->ref % 100, c->due);
        }
        if (pr->op == OP_HOLD && pr->hold_due <= now)
            pend_viol("C04", "hold-overdue", "process %d is still suspended in a hold that was due at t=%g (now %g)", i, pr->hold_due, now);
        if (pr->op == OP_WAITP && PR[pr->obj].finished && !PR[pr->obj].start_pending && pr->arg == 0 && PR[pr->obj].end_time <= now
            && PR[pr->obj].end_seq >= pr->callseq * 0)
            pend_viol("C09", "waiter-not-resumed", "process %d is still suspended waiting for process %d, which ended at t=%g", i, pr->obj, PR[pr->obj].end_time);
        /* C08: a buffer call that has moved all it asked for has no demand left; it may not stay suspended (a get of exactly
         * the level, or a put of exactly the free space, served by the 'take what is there' branch and sent to wait for more) */
        if ((pr->op == OP_BGET && pr->bufvar == pr->buf_req) || (pr->op == OP_BPUT && pr->bufvar == 0))
            pend_viol("C08", pr->op == OP_BGET ? "blocked-though-served/buffer-get" : "blocked-though-served/buffer-put",
                      "process %d is still suspended in a buffer %s of %" PRIu64 " at the end of instant t=%g although the whole amount has been transferred",
                      i, pr->op == OP_BGET ? "get" : "put", pr->buf_req, now);
        if (pr->op == OP_WAITT && !cmb_event_is_scheduled(pr->waitt_handle))
            pend_viol("C04", "waitevent-overdue", "process %d is still suspended waiting for timer event %" PRIu64 " of process %d, which has been executed or cancelled", i, pr->waitt_handle, pr->obj);
        if (pr->op == OP_WAITE && !W.hev[pr->obj].pending && (W.hev[pr->obj].executed || W.hev[pr->obj].cancelled))
            pend_viol("C04", "waitevent-overdue", "process %d is still suspended waiting for event %d, which is done", i, pr->obj);
    }
    /* C09: nothing addressed to an ended process may be pending, unless it is being restarted */
    for (int i = 0; i < W.np; i++) {
        const proc *pr = &PR[i];
        if (!pr->finished || pr->start_pending) continue;
        const uint64_t n = cmb_event_pattern_count(CMB_ANY_ACTION, pr->pp, CMB_ANY_OBJECT) - hev_count_for_subject(pr->pp);
        if (n != 0) pend_viol("C09", "event-pending-for-ended-process", "%" PRIu64 " event(s) addressed to ended process %d are still scheduled at the end of instant t=%g", n, i, now);
    }
    /* C08 */
    for (int g = 0; g < W.nguards; g++) {
        if (W.guards[g].cls == GC_COND) continue;
        if (cmi_hashheap_count(&W.guards[g].g->priority_queue) > 0 && demand_true(g)) {
            char sig[64]; snprintf(sig, sizeof sig, "blocked-while-available/%s", gcname(W.guards[g].cls));
            pend_viol("C08", sig, "%s %d: %" PRIu64 " process(es) still wait at the end of instant t=%g although the demand of the first one can be met",
                      gcname(W.guards[g].cls), W.guards[g].idx, cmi_hashheap_count(&W.guards[g].g->priority_queue), now);
        }
    }
    /* C13 */
    for (int g = 0; g < W.nguards; g++) {
        if (W.guards[g].cls != GC_COND) continue;
        gent w[MAXGENT];
        const int n = snapshot_guard(g, w);
        for (int k = 0; k < n; k++) {
            if (w[k].pid < 0) continue;
            const proc *pr = &PR[w[k].pid];
            if (pr->op != OP_CWAIT || !pred_observed(pr, W.guards[g].idx)) continue;
            /* a waiter whose predicate was true all along is not owed a wake-up: nothing has signalled since it came */
            if (pr->cond_seen_false && pred_now(pr->id)) {
                pend_viol("C13", "became-true-still-queued",
                          "condition %d: waiter %d (position %d of %d) has a true predicate at the end of instant t=%g and was not resumed", W.guards[g].idx, pr->id, k + 1, n, now);
                break;
            }
        }
    }
    /* C14 */
    for (int kind = 0; kind < 5; kind++) for (int idx = 0; idx < nobj(kind) && idx < 4; idx++) {
        rec_cand[kind][idx].valid = false;
        if (!W.rec[kind][idx].on) continue;
        const double v = (double)true_state(kind, idx);
        rec_cand[kind][idx].valid = true; rec_cand[kind][idx].v = v;
        const struct cmb_timeseries *ts = history_of(kind, idx);
        const uint64_t n = cmb_timeseries_count(ts);
        if (n == 0) { pend_viol("C14", "no-sample", "recording is on but the history is empty"); continue; }
        if (ts->ds.xa[n - 1] != v)
            pend_viol("C14", "history-differs-from-state", "kind %d object %d: last recorded value %g at t=%g, true state %g at the end of instant t=%g", kind, idx, ts->ds.xa[n - 1], ts->ta[n - 1], v, now);
        else if (v != W.rec[kind][idx].last_v && ts->ta[n - 1] != now)
            pend_viol("C14", "change-recorded-at-wrong-time", "kind %d object %d: state changed to %g in instant t=%g but the last sample is at t=%g", kind, idx, v, now, ts->ta[n - 1]);
    }
}

void mon_boundary_commit(void)
{
    /* the instant that ended at t_commit = time of the last executed event is over */
    for (int i = 0; i < npend; i++) viol(pend[i].prop, pend[i].sig, "%s", pend[i].msg);
    npend = 0;
    const double T = W.now;
    for (int kind = 0; kind < 5; kind++) for (int idx = 0; idx < 4; idx++) {
        if (!W.rec[kind][idx].on || !rec_cand[kind][idx].valid) continue;
        W.rec[kind][idx].integral += W.rec[kind][idx].last_v * (T - W.rec[kind][idx].last_t);
        if (rec_cand[kind][idx].v != W.rec[kind][idx].last_v) W.rec[kind][idx].changes++;
        W.rec[kind][idx].last_t = T; W.rec[kind][idx].last_v = rec_cand[kind][idx].v;
        rec_cand[kind][idx].valid = false;
    }
}

void mon_quiescence(void)
{
    mon_boundary_eval();
    mon_boundary_commit();
    for (int kind = 0; kind < 5; kind++) for (int idx = 0; idx < nobj(kind) && idx < 4; idx++)
        if (W.rec[kind][idx].on) mon_record(kind, idx, false);
    int blocked = 0;
    for (int i = 0; i < W.np; i++) if (PR[i].started && !PR[i].finished && PR[i].op != OP_NONE) blocked++;
    if (blocked) PROBE("quiescence.with_blocked_processes");
}
