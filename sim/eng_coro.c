/* eng_coro.c - C03: context switches on the real cmi_coroutine API against a model of
 * status / current / caller / parent; register, MXCSR and stack sentinels around every switch.
 *
 * Plan lines (each executed by whichever coroutine is current when the step counter reaches it):
 *   INIT n szcode            n coroutines (2..8), stack size selector
 *   START c | RESUME c | TRANSFER c | YIELD | RETURN | EXIT | STOP c | RECURSE d | POP | SETCSR m
 * Steps that are invalid in the current model state are skipped, so every shrunk plan stays valid.
 */
#include "core.h"
#include <stdlib.h>
#include <string.h>
#include <xmmintrin.h>
#include "cmi_coroutine.h"
#include "cmb_logger.h"

#if defined(__has_feature)
#  if __has_feature(address_sanitizer)
#    define VERIF_ASAN 1
#  endif
#endif
#ifdef __SANITIZE_ADDRESS__
#  define VERIF_ASAN 1
#endif
#ifdef VERIF_ASAN
void __asan_unpoison_memory_region(void const volatile *addr, size_t size);
#endif

extern uint64_t shim_bad, entry_rsp, exit_rsp;
extern void *switch_shim(void *(*fn)(void *, void *), void *a1, void *a2, uint64_t pat);
extern void *coro_entry_stub(struct cmi_coroutine *cp, void *ctx);
extern void coro_exit_stub(void *retval);

#define MAXC 8
#define MAXDEPTH 24
enum { ST_CREATED = 0, ST_RUNNING = 1, ST_FINISHED = 2 };

typedef struct {
    struct cmi_coroutine *cp;
    int status, caller, parent;       /* model; index, -1 none */
    void *exitv;
    uint32_t csr;
    int depth;
    bool returning; void *retv;
    size_t stacksz;
    bool used;
} mco;

static mco co[MAXC + 1];
static int nco, MAINI;
static const plan *P;
static int pc;
static int cur;                       /* model: index of the current coroutine */
static int expect_target; static void *expect_msg; static bool expect_entry;
static int switch_kind;          /* how the switch under way was made: 0 start/resume/transfer, 1 yield, 2 exit/return/stop-self */
static int in_kind[64];          /* per coroutine: how control last came to it */
static bool stop_all;
static uint64_t nswitch;

static const char *regname(uint64_t k)
{
    static const char *n[] = { "?", "rbx", "rbp", "r12", "r13", "r14", "r15", "stack-slot" };
    return n[k < 8 ? k : 0];
}
static struct cmi_coroutine *cpof(int i) { return i == MAINI ? cmi_coroutine_main() : co[i].cp; }

static void *w_start(void *cp, void *msg) { return cmi_coroutine_start(cp, msg); }
static void *w_resume(void *cp, void *msg) { return cmi_coroutine_resume(cp, msg); }
static void *w_transfer(void *cp, void *msg) { return cmi_coroutine_transfer(cp, msg); }
static void *w_yield(void *msg, void *unused) { (void)unused; return cmi_coroutine_yield(msg); }

static void check_model(const char *where)
{
    for (int i = 0; i < nco; i++) {
        if ((int)cmi_coroutine_status(co[i].cp) != co[i].status)
            viol("C03", "status", "%s: coroutine %d status %d, model %d", where, i, (int)cmi_coroutine_status(co[i].cp), co[i].status);
        if (co[i].status == ST_FINISHED && cmi_coroutine_exit_value(co[i].cp) != co[i].exitv)
            viol("C03", "exit-value", "%s: coroutine %d exit value %p, expected %p", where, i, cmi_coroutine_exit_value(co[i].cp), co[i].exitv);
    }
}

/* called in coroutine `me` right after a switching call returned `got` */
static void after_switch_in(int me, void *got, uint64_t pat)
{
    nswitch++;
    if (me >= 0 && me < 64) in_kind[me] = switch_kind;
    switch_kind = 0;
    if (shim_bad) {
        viol("C03", "callee-saved-register", "coroutine %d: %s not preserved across a context switch (pattern %#" PRIx64 ")", me, regname(shim_bad), pat);
        shim_bad = 0;
    }
    if (cmi_coroutine_current() != cpof(me))
        viol("C03", "current", "coroutine %d resumed but cmi_coroutine_current() names another", me);
    if (expect_target != me) {
        viol("C03", "wrong-target", "control arrived in coroutine %d, model predicted %d", me, expect_target);
        stop_all = true;
    } else if (expect_entry) {
        viol("C03", "wrong-target", "coroutine %d continued in mid-function, model predicted a fresh start", me);
    } else if (got != expect_msg) {
        viol("C03", "message", "coroutine %d received %p, expected %p", me, got, expect_msg);
    }
    const uint32_t csr = _mm_getcsr() & ~0x3fu;
    if (csr != co[me].csr)
        viol("C03", "mxcsr", "coroutine %d: MXCSR %#x after switch-in, it left with %#x", me, csr, co[me].csr);
    cur = me;
    check_model("switch-in");
    TR3("in", me, (int64_t)(uintptr_t)got, pc);
}

static void do_exit_switch(int me, void *v)
{
    const int t = co[me].parent;
    co[me].status = ST_FINISHED; co[me].exitv = v; co[me].depth = 0;
    switch_kind = 2;
    /* the parent's caller stays what it was: a coroutine that ends has not resumed its parent, and the parent's next yield still
     * answers whoever resumed the parent */
    expect_target = t; expect_msg = v; expect_entry = false; cur = t;
}

static void interp(int me, int depth);

static void recurse(int me, int depth, int more)
{
    volatile uint64_t loc[4];
    for (int k = 0; k < 4; k++) loc[k] = mix64((uint64_t)me * 1000 + (uint64_t)depth, (uint64_t)k + 77);
    if (more > 0) recurse(me, depth + 1, more - 1); else interp(me, depth + 1);
    for (int k = 0; k < 4; k++)
        if (loc[k] != mix64((uint64_t)me * 1000 + (uint64_t)depth, (uint64_t)k + 77))
            viol("C03", "stack-contents", "coroutine %d depth %d: stack local changed across switches", me, depth);
}

static void interp(int me, int depth)
{
    volatile uint64_t sent[6];
    const uint64_t sbase = mix64((uint64_t)me, (uint64_t)depth * 7919u + 13u);
    for (int k = 0; k < 6; k++) sent[k] = sbase + (uint64_t)k;
    co[me].depth = depth;
    while (!stop_all && !co[me].returning && g_nviol < 4) {
        if (pc >= P->n) {
            /* plan exhausted: everybody hands control back to main, which ends the run */
            if (me == MAINI) break;
            co[MAINI].caller = me; expect_target = MAINI; expect_msg = (void *)0xE0D; expect_entry = false; cur = MAINI;
            const uint64_t pat = 0xC0DE000000000000ull | ((uint64_t)me << 32) | 0xffff00u;
            void *got = switch_shim(w_transfer, cpof(MAINI), (void *)0xE0D, pat);
            after_switch_in(me, got, pat);     /* only if somebody resumes us later: cannot happen */
            continue;
        }
        const int at = pc;
        const pline *l = &P->l[pc++];
        if (pis(l, "INIT")) continue;
        g_stats.events++;
        const uint64_t pat = 0xC0DE000000000000ull | ((uint64_t)me << 32) | ((uint64_t)at << 8);
        void *msg = (void *)(uintptr_t)(0x5000 + at);
        const int c = (int)((uint64_t)pa(l, 0) % (uint64_t)nco);
        void *got = NULL; bool switched = false;
        if (pis(l, "START")) {
            if (co[c].status == ST_RUNNING || c == me) continue;
            if (co[c].status == ST_FINISHED) PROBE("coro.restart");
#ifdef VERIF_ASAN
            if (co[c].used) __asan_unpoison_memory_region(co[c].cp->stack, co[c].stacksz);
#endif
            co[c].used = true;
            co[c].parent = co[c].caller = me; co[c].status = ST_RUNNING; co[c].exitv = NULL; co[c].returning = false;
            expect_target = c; expect_entry = true; expect_msg = NULL; cur = c;
            TR2("start", me, c);
            got = switch_shim(w_start, co[c].cp, msg, pat); switched = true;
        } else if (pis(l, "RESUME") || pis(l, "TRANSFER")) {
            int t = c;
            if (pis(l, "TRANSFER") && pa(l, 0) < 0) t = MAINI;      /* transfer may also target main */
            if (t == me || co[t].status != ST_RUNNING) continue;
            co[t].caller = me; expect_target = t; expect_msg = msg; expect_entry = false; cur = t;
            TR3(l->op, me, t, at);
            got = switch_shim(pis(l, "RESUME") ? w_resume : w_transfer, cpof(t), msg, pat); switched = true;
        } else if (pis(l, "YIELD")) {
            if (me == MAINI) continue;
            const int t = co[me].caller;
            if (t < 0 || co[t].status != ST_RUNNING) continue;
            /* a yield answers the resume (start, transfer) that last activated this coroutine; it does not make the yielder the
             * caller of its target: with A resuming B and B resuming C, C's yield returns to B and B's next yield to A */
            expect_target = t; expect_msg = msg; expect_entry = false; cur = t;
            if (me < 64 && in_kind[me] == 1) PROBE("coro.yield_after_being_yielded_to");
            if (me < 64 && in_kind[me] == 2) PROBE("coro.yield_after_a_started_coroutine_ended");
            switch_kind = 1;
            TR3("yield", me, t, at);
            got = switch_shim(w_yield, msg, NULL, pat); switched = true;
        } else if (pis(l, "RETURN") || pis(l, "EXIT")) {
            if (me == MAINI) continue;
            const int t = co[me].parent;
            if (t < 0 || co[t].status != ST_RUNNING) continue;
            TR3(l->op, me, t, at);
            if (pis(l, "RETURN")) { co[me].returning = true; co[me].retv = msg; PROBE("coro.return"); break; }
            PROBE("coro.exit");
            if (depth > 0) PROBE("coro.exit_at_depth");
            do_exit_switch(me, msg);
            cmi_coroutine_exit(msg);
            viol("C03", "exit-returned", "cmi_coroutine_exit returned");
        } else if (pis(l, "STOP")) {
            if (c == me) {
                /* stopping oneself: like exit, the value becomes the exit value and control goes to the parent (not to the last caller) */
                if (me == MAINI) continue;
                const int t = co[me].parent;
                if (t < 0 || co[t].status != ST_RUNNING) continue;
                TR3("stop-self", me, t, at);
                PROBE("coro.stop_self");
                if (co[me].caller != co[me].parent) PROBE("coro.stop_self_caller_differs_from_parent");
                do_exit_switch(me, msg);
                cmi_coroutine_stop(co[me].cp, msg);
                viol("C03", "exit-returned", "cmi_coroutine_stop on the running coroutine returned");
                continue;
            }
            if (co[c].status != ST_RUNNING) continue;
            TR2("stop", me, c);
            PROBE("coro.stop_other");
            co[c].status = ST_FINISHED; co[c].exitv = msg; co[c].depth = 0;
            cmi_coroutine_stop(co[c].cp, msg);
            check_model("stop");
        } else if (pis(l, "RECURSE")) {
            int d = (int)((uint64_t)pa(l, 0) % 6);
            if (depth + d + 1 >= MAXDEPTH) continue;
            PROBE("coro.recurse");
            recurse(me, depth, d);
            co[me].depth = depth;
        } else if (pis(l, "POP")) {
            if (depth > 0) break;
        } else if (pis(l, "SETCSR")) {
            const uint32_t m = (uint32_t)pa(l, 0);
            uint32_t v = 0x1d00u;                       /* DM, OM, UM, PM stay masked */
            v |= (m & 3u) << 13;                        /* rounding mode */
            if (m & 4u) v |= 0x8000u;                   /* FTZ */
            if (m & 8u) v |= 0x0040u;                   /* DAZ */
            if (m & 16u) v |= 0x0080u;                  /* IM masked */
            if (m & 32u) v |= 0x0200u;                  /* ZM masked */
            _mm_setcsr(v);
            co[me].csr = v;
            PROBE("coro.setcsr");
        }
        if (switched) {
            after_switch_in(me, got, pat);
            for (int k = 0; k < 6; k++)
                if (sent[k] != sbase + (uint64_t)k)
                    viol("C03", "stack-contents", "coroutine %d depth %d: local sentinel changed across a switch", me, depth);
            if (depth > 0) PROBE("coro.switch_at_depth");
        }
    }
    for (int k = 0; k < 6; k++)
        if (sent[k] != sbase + (uint64_t)k)
            viol("C03", "stack-contents", "coroutine %d depth %d: local sentinel changed", me, depth);
}

/* reached through coro_entry_stub, which recorded rsp at function entry */
void *coro_body_c(struct cmi_coroutine *cp, void *ctx)
{
    const int me = (int)((mco *)ctx - co);
    nswitch++;
    if (me < 0 || me >= nco || cp != co[me].cp)
        viol("C03", "start-args", "started coroutine got cp=%p ctx=%p", (void *)cp, ctx);
    if ((entry_rsp & 15u) != 8u)
        viol("C03", "stack-alignment", "coroutine %d: rsp %% 16 == %u at function entry (must be 8)", me, (unsigned)(entry_rsp & 15u));
    if (!(expect_target == me && expect_entry))
        { viol("C03", "wrong-target", "coroutine %d started, model predicted target %d entry=%d", me, expect_target, expect_entry); stop_all = true; }
    if (cmi_coroutine_current() != cp) viol("C03", "current", "coroutine %d started but is not current", me);
    if (shim_bad) shim_bad = 0;
    co[me].csr = _mm_getcsr() & ~0x3fu;          /* a fresh coroutine gets the library's initial word */
    cur = me;
    if (me >= 0 && me < 64) in_kind[me] = 0;
    switch_kind = 0;
    check_model("start");
    TR1("entry", me);
    interp(me, 0);
    if (co[me].returning) {
        /* returning from the coroutine function: the value becomes the exit value, control goes to the starter */
        void *v = co[me].retv;
        co[me].returning = false;
        do_exit_switch(me, v);
        return v;
    }
    /* stop_all: get out of the way */
    co[MAINI].caller = me; expect_target = MAINI; expect_msg = (void *)0xE0D; expect_entry = false; cur = MAINI;
    cmi_coroutine_transfer(cmi_coroutine_main(), (void *)0xE0D);
    return NULL;
}

void coro_exit_c(void *retval)
{
    if ((exit_rsp & 15u) != 8u)
        viol("C03", "stack-alignment", "rsp %% 16 == %u at exit-function entry (must be 8)", (unsigned)(exit_rsp & 15u));
    cmi_coroutine_exit(retval);
}

static void co_run(const plan *p)
{
    cmb_logger_flags_off(CMB_LOGGER_INFO | CMB_LOGGER_WARNING);
    P = p; pc = 0; stop_all = false; nswitch = 0; shim_bad = 0;
    nco = 3; int szsel = 0; bool nullexit = false;
    for (int i = 0; i < p->n; i++) if (pis(&p->l[i], "INIT")) { nco = 2 + (int)((uint64_t)pa(&p->l[i], 0) % 7); szsel = (int)((uint64_t)pa(&p->l[i], 1) % 4); nullexit = (pa(&p->l[i], 2) & 1) != 0; break; }
    MAINI = nco;
    memset(co, 0, sizeof co);
    static const size_t sizes[] = { 64 * 1024, 64 * 1024 + 8, 49152 + 24, 98304 + 4 };
    const uint32_t csr0 = _mm_getcsr();
    for (int i = 0; i < nco; i++) {
        co[i].cp = cmi_coroutine_create();
        co[i].stacksz = sizes[szsel] + (size_t)(i & 1) * 8u;
        /* no exit function given: the library's own cmi_coroutine_exit is what a return from the coroutine function reaches */
        cmi_coroutine_initialize(co[i].cp, (cmi_coroutine_func *)coro_entry_stub, &co[i], (nullexit && (i & 1)) ? NULL : coro_exit_stub, co[i].stacksz);
        co[i].status = ST_CREATED; co[i].caller = co[i].parent = -1;
    }
    co[MAINI].status = ST_RUNNING; co[MAINI].caller = co[MAINI].parent = -1; co[MAINI].csr = _mm_getcsr() & ~0x3fu;
    cur = MAINI; expect_target = MAINI;
    interp(MAINI, 0);
    if (cmi_coroutine_current() != cmi_coroutine_main()) die("coro engine ended outside main");
    _mm_setcsr(csr0);
    g_stats.faults = nswitch;
    g_stats.nontrivial = nswitch >= 4;
    for (int i = 0; i < nco; i++) { cmi_coroutine_terminate(co[i].cp); cmi_coroutine_destroy(co[i].cp); }
}

static void co_gen(plan *p, uint64_t seed, const char *cfg)
{
    (void)cfg;
    vrng r; vrng_seed(&r, seed);
    const int n = 2 + (int)vrng_below(&r, 7);
    plan_add(p, "INIT", 3, (int64_t)(n - 2), (int64_t)vrng_below(&r, 4), (int64_t)vrng_below(&r, 2));
    const int steps = 8 + (int)vrng_below(&r, vrng_chance(&r, 1, 5) ? 190 : 50);
    for (int i = 0; i < steps; i++) {
        const unsigned k = (unsigned)vrng_below(&r, 100);
        const int64_t c = (int64_t)vrng_below(&r, (uint64_t)n);
        if (k < 18) plan_add(p, "START", 1, c);
        else if (k < 36) plan_add(p, "RESUME", 1, c);
        else if (k < 48) plan_add(p, "TRANSFER", 1, vrng_chance(&r, 1, 4) ? (int64_t)-1 : c);
        else if (k < 68) plan_add(p, "YIELD", 0);
        else if (k < 73) plan_add(p, "RETURN", 0);
        else if (k < 78) plan_add(p, "EXIT", 0);
        else if (k < 82) plan_add(p, "STOP", 1, c);
        else if (k < 90) plan_add(p, "RECURSE", 1, (int64_t)vrng_below(&r, 6));
        else if (k < 93) plan_add(p, "POP", 0);
        else plan_add(p, "SETCSR", 1, (int64_t)vrng_below(&r, 64));
    }
}

const engine eng_coro = {
    .name = "coro", .props = "C03", .gen = co_gen, .run = co_run,
    .rule = "runs with at least 4 context switches",
};
