/* core.h - harness core: PRNG, plan-as-data, trace hash, violations, probes, stats.
 * Nothing in here uses cimba's generator or a wall clock. */
#ifndef VERIF_CORE_H
#define VERIF_CORE_H
#include <inttypes.h>
#include <stdbool.h>
#include <stddef.h>
#include <stdint.h>
#include <stdio.h>

/* ---- harness PRNG: xoshiro256** seeded via splitmix64 (deliberately not cimba's sfc64) ---- */
typedef struct { uint64_t s[4]; } vrng;
void     vrng_seed(vrng *r, uint64_t seed);
uint64_t vrng_next(vrng *r);
uint64_t vrng_below(vrng *r, uint64_t n);           /* uniform in [0,n), n>0 */
int64_t  vrng_range(vrng *r, int64_t lo, int64_t hi); /* inclusive */
bool     vrng_chance(vrng *r, unsigned num, unsigned den);
uint64_t mix64(uint64_t a, uint64_t b);

/* ---- plan: a list of lines "OP a0 a1 ... a7" (all integers); the replay file is this text ---- */
#define PLAN_MAXARGS 8
typedef struct {
    char op[12];
    int n;
    int64_t a[PLAN_MAXARGS];
} pline;
typedef struct {
    char engine[16];
    uint64_t seed;      /* generator seed (informational once the plan exists) */
    pline *l;
    int n, cap;
} plan;
void plan_init(plan *p, const char *engine, uint64_t seed);
void plan_free(plan *p);
pline *plan_add(plan *p, const char *op, int n, ...); /* n int64_t args */
void plan_write(const plan *p, FILE *fp);
bool plan_read(plan *p, FILE *fp);                 /* tolerant: unknown/short lines are kept as-is */
/* argument access that never faults: missing args read as 0 */
static inline int64_t pa(const pline *l, int i) { return (i < l->n) ? l->a[i] : 0; }
static inline bool pis(const pline *l, const char *op) {
    const char *a = l->op; while (*a && *a == *op) { a++; op++; } return *a == *op;
}

/* ---- trace: rolling hash of everything observable, optional text ---- */
extern bool g_trace_on;          /* print trace lines to g_trace_fp */
extern FILE *g_trace_fp;
extern uint64_t g_trace_hash;
void tr(const char *tag, int n, ...);             /* n int64_t values */
#define TR0(tag) tr(tag, 0)
#define TR1(tag,a) tr(tag, 1, (int64_t)(a))
#define TR2(tag,a,b) tr(tag, 2, (int64_t)(a), (int64_t)(b))
#define TR3(tag,a,b,c) tr(tag, 3, (int64_t)(a), (int64_t)(b), (int64_t)(c))
#define TR4(tag,a,b,c,d) tr(tag, 4, (int64_t)(a), (int64_t)(b), (int64_t)(c), (int64_t)(d))
#define TR5(tag,a,b,c,d,e) tr(tag, 5, (int64_t)(a), (int64_t)(b), (int64_t)(c), (int64_t)(d), (int64_t)(e))
int64_t dbits(double d);         /* bit pattern, for hashing doubles exactly */

/* ---- violations ---- */
#define MAXVIOL 8
typedef struct { char prop[8]; char sig[96]; char msg[400]; } violation;
extern violation g_viol[MAXVIOL];
extern int g_nviol;
void viol(const char *prop, const char *sig, const char *fmt, ...) __attribute__((format(printf,3,4)));
/* restrict which properties are judged (others are still traced); NULL = all */
extern const char *g_only_prop;

/* ---- probes and fault counters: named, per batch ---- */
#define MAXCOUNTERS 256
typedef struct { const char *name; uint64_t v; } counter;
extern counter g_ctr[MAXCOUNTERS];
extern int g_nctr;
uint64_t *ctr(const char *name);  /* find-or-create; name must be a literal or stable string */
#define PROBE(name) do { static uint64_t *c_; if (!c_) c_ = ctr(name); (*c_)++; } while (0)
#define PROBE_N(name, k) do { static uint64_t *c_; if (!c_) c_ = ctr(name); (*c_) += (uint64_t)(k); } while (0)
void ctr_reset(void);

/* per-run stats reported on the OK/VIOL line */
typedef struct {
    uint64_t events;       /* library events executed / steps performed */
    double simtime;        /* simulated time covered */
    uint64_t faults;       /* faults that landed */
    bool nontrivial;       /* by the engine's stated rule */
    bool budget;           /* run hit its step budget */
} runstats;
extern runstats g_stats;

/* ---- engines ---- */
typedef struct {
    const char *name;
    const char *props;                                  /* properties it serves */
    void (*gen)(plan *p, uint64_t seed, const char *cfg);  /* seed -> plan */
    void (*run)(const plan *p);                         /* plan -> execution (fills g_viol, g_stats) */
    const char *rule;                                   /* what makes a run non-trivial */
    /* single-fault sweep (optional): pick < 0 -> number of placements for the base program of `seed`;
     * pick >= 0 -> the base plan plus placement #pick in *out */
    int (*sweep)(uint64_t seed, const char *cfg, int pick, plan *out);
} engine;
extern const engine eng_events, eng_hheap, eng_coro, eng_procs, eng_mempool, eng_rng, eng_experiment, eng_util, eng_teardown;
const engine *engine_by_name(const char *name);

/* time codes: integer code -> double, exact in binary (quarters), plus a few extremes */
double dur_of(int64_t code);
/* priority codes: small integers are themselves; 1000001 = INT64_MAX, -1000001 = INT64_MIN */
int64_t prio_of(int64_t code);

/* libstate.c */
int libstate_ranges(void);
void libstate_snapshot(void);
const char *libstate_changed(size_t *offset);

void die(const char *fmt, ...) __attribute__((noreturn, format(printf,1,2)));

#endif
