/* eng_mempool.c - C20: allocation histories against an address/stamp ledger.
 *
 * Plan lines:
 *   INIT szi numi kind sched     obj size palette index, objects-per-chunk palette index,
 *                                kind 0 dynamic pool, 1 static thread-local pool used by 1 thread,
 *                                2 static thread-local pool used by 2 threads under the baton
 *   A n        allocate n objects (thread t = a[1] for kind 2)
 *   F sel n    free n live objects starting at ledger position sel (mod)
 *   V          verify every live object's full-size stamp
 * Oracle: each returned address is 8-aligned, not live, and [p,p+sz) is disjoint from every live
 * object; every live object keeps its stamp until freed.
 */
#include "core.h"
#include "baton.h"
#include <stdlib.h>
#include <string.h>
#include <pthread.h>
#include "cmi_mempool.h"
#include "cmb_logger.h"

static const size_t SZ[] = { 8, 16, 24, 40, 64, 512, 2048, 4096, 8192 };
static const uint64_t NUM[] = { 1, 2, 3, 7, 64, 100, 1 };
#define NSZ (sizeof SZ / sizeof SZ[0])
#define NNUM (sizeof NUM / sizeof NUM[0])
#define MAXLIVE 40000

typedef struct { unsigned char *p; uint32_t serial; int owner; } lent;
static lent *led;           /* sorted by address */
static int nled;
static uint32_t serial;
static size_t objsz;
static uint64_t allocs_total;
static bool crossed64, crossed_incr;

/* static thread-local pools, one per size class (each thread gets its own instance) */
static CMB_THREAD_LOCAL struct cmi_mempool sp0 = CMI_MEMPOOL_STATIC_INIT(8, 1);
static CMB_THREAD_LOCAL struct cmi_mempool sp1 = CMI_MEMPOOL_STATIC_INIT(16, 3);
static CMB_THREAD_LOCAL struct cmi_mempool sp2 = CMI_MEMPOOL_STATIC_INIT(24, 100);
static CMB_THREAD_LOCAL struct cmi_mempool sp3 = CMI_MEMPOOL_STATIC_INIT(40, 7);
static CMB_THREAD_LOCAL struct cmi_mempool sp4 = CMI_MEMPOOL_STATIC_INIT(64, 64);
static CMB_THREAD_LOCAL struct cmi_mempool sp5 = CMI_MEMPOOL_STATIC_INIT(512, 2);
static CMB_THREAD_LOCAL struct cmi_mempool sp6 = CMI_MEMPOOL_STATIC_INIT(2048, 1);
static CMB_THREAD_LOCAL struct cmi_mempool sp7 = CMI_MEMPOOL_STATIC_INIT(4096, 1);
static CMB_THREAD_LOCAL struct cmi_mempool sp8 = CMI_MEMPOOL_STATIC_INIT(8192, 1);
static struct cmi_mempool *static_pool(int szi)
{
    switch (szi) { case 0: return &sp0; case 1: return &sp1; case 2: return &sp2; case 3: return &sp3; case 4: return &sp4;
                   case 5: return &sp5; case 6: return &sp6; case 7: return &sp7; default: return &sp8; }
}

static unsigned char stamp_byte(const unsigned char *p, uint32_t ser, size_t off)
{
    return (unsigned char)(((uintptr_t)p >> 3) * 31u + ser * 131u + off * 7u + 0x5a);
}
static void stamp(unsigned char *p, uint32_t ser) { for (size_t o = 0; o < objsz; o++) p[o] = stamp_byte(p, ser, o); }
static bool stamp_ok(const unsigned char *p, uint32_t ser)
{
    for (size_t o = 0; o < objsz; o++) if (p[o] != stamp_byte(p, ser, o)) return false;
    return true;
}
static int lower_bound(const unsigned char *p)
{
    int lo = 0, hi = nled;
    while (lo < hi) { const int mid = (lo + hi) / 2; if (led[mid].p < p) lo = mid + 1; else hi = mid; }
    return lo;
}

static void do_alloc(struct cmi_mempool *mp, int owner)
{
    if (nled >= MAXLIVE) return;
    const uint64_t chunks0 = mp->chunk_list_cnt;
    unsigned char *p = cmi_mempool_alloc(mp);
    allocs_total++;
    if (mp->cookie == CMI_INITIALIZED && mp->chunk_list_cnt != chunks0) {
        crossed_incr = true; PROBE("mp.expand");
        if (mp->chunk_list_cnt >= 64) { crossed64 = true; PROBE("mp.chunks_ge_64"); }
        if (mp->chunk_list_cnt >= 128) PROBE("mp.chunks_ge_128");
    }
    if (p == NULL) { viol("C20", "alloc-null", "alloc returned NULL"); return; }
    if (((uintptr_t)p & 7u) != 0) viol("C20", "misaligned", "alloc returned %p, not 8-byte aligned", (void *)p);
    const int pos = lower_bound(p);
    if (pos < nled && led[pos].p == p) { viol("C20", "handed-out-twice", "alloc returned %p which is still allocated (live=%d)", (void *)p, nled); return; }
    if (pos < nled && p + objsz > led[pos].p) { viol("C20", "overlap", "object %p+%zu overlaps live object %p", (void *)p, objsz, (void *)led[pos].p); return; }
    if (pos > 0 && led[pos - 1].p + objsz > p) { viol("C20", "overlap", "object %p overlaps live object %p+%zu", (void *)p, (void *)led[pos - 1].p, objsz); return; }
    memmove(&led[pos + 1], &led[pos], (size_t)(nled - pos) * sizeof(lent));
    led[pos].p = p; led[pos].serial = ++serial; led[pos].owner = owner;
    nled++;
    stamp(p, led[pos].serial);
    TR2("alloc", owner, nled);
}

static void do_free(struct cmi_mempool *mp, int owner, uint64_t sel)
{
    if (nled == 0) return;
    /* pick the first object owned by `owner` at or after position sel (cyclic) */
    int pos = -1;
    for (int k = 0; k < nled; k++) { const int c = (int)((sel + (uint64_t)k) % (uint64_t)nled); if (led[c].owner == owner) { pos = c; break; } }
    if (pos < 0) return;
    if (!stamp_ok(led[pos].p, led[pos].serial)) { viol("C20", "contents-changed", "object %p lost its contents before being freed", (void *)led[pos].p); }
    cmi_mempool_free(mp, led[pos].p);
    memmove(&led[pos], &led[pos + 1], (size_t)(nled - pos - 1) * sizeof(lent));
    nled--;
    TR2("free", owner, nled);
}

static void verify_all(const char *where)
{
    for (int i = 0; i < nled; i++)
        if (!stamp_ok(led[i].p, led[i].serial)) { viol("C20", "contents-changed", "%s: live object %p (owner %d) lost its contents", where, (void *)led[i].p, led[i].owner); return; }
}

typedef struct { const plan *p; int me; int kind; int szi; int numi; } targ;

static void interpret(const plan *p, struct cmi_mempool *mp, int me, int kind)
{
    for (int li = 0; li < p->n && g_nviol == 0; li++) {
        const pline *l = &p->l[li];
        if (pis(l, "INIT")) continue;
        const int t = (kind == 2) ? (int)(((uint64_t)pa(l, pis(l, "F") ? 2 : 1)) % 2) : 0;
        if (kind == 2 && t != me) continue;
        if (pis(l, "A")) {
            int64_t n = pa(l, 0); if (n < 0) n = -n; if (n > 40000) n = 40000;
            for (int64_t k = 0; k < n && g_nviol == 0; k++) do_alloc(mp, me);
        } else if (pis(l, "F")) {
            int64_t n = pa(l, 1); if (n < 0) n = -n; if (n > 40000) n = 40000;
            for (int64_t k = 0; k < n; k++) do_free(mp, me, (uint64_t)pa(l, 0) + (uint64_t)k * 7u);
        } else if (pis(l, "V")) {
            verify_all("verify");
        }
        g_stats.events++;
        if (kind == 2) baton_yield();
    }
}

static void *thread_body(void *vp)
{
    targ *a = vp;
    struct cmi_mempool *mp = static_pool(a->szi);
    interpret(a->p, mp, a->me, a->kind);
    /* the other thread's objects must survive this thread's exit */
    if (a->kind == 2) baton_yield();
    /* free my own objects from the ledger, then clean the thread-local pools up as a worker thread does */
    for (int i = 0; i < nled; ) {
        if (led[i].owner == a->me) {
            if (!stamp_ok(led[i].p, led[i].serial)) viol("C20", "contents-changed", "thread exit: object %p lost its contents", (void *)led[i].p);
            memmove(&led[i], &led[i + 1], (size_t)(nled - i - 1) * sizeof(lent)); nled--;
        } else i++;
    }
    cmi_mempool_cleanup(NULL);
    verify_all("after other thread's cleanup");
    return NULL;
}

static void mp_run(const plan *p)
{
    cmb_logger_flags_off(CMB_LOGGER_INFO | CMB_LOGGER_WARNING);
    if (!led) led = malloc(sizeof(lent) * (MAXLIVE + 1));
    nled = 0; serial = 0; allocs_total = 0; crossed64 = crossed_incr = false;
    int szi = 0, numi = 0, kind = 0; uint64_t sched = 1;
    for (int i = 0; i < p->n; i++) if (pis(&p->l[i], "INIT")) {
        szi = (int)((uint64_t)pa(&p->l[i], 0) % NSZ); numi = (int)((uint64_t)pa(&p->l[i], 1) % NNUM);
        kind = (int)((uint64_t)pa(&p->l[i], 2) % 3); sched = (uint64_t)pa(&p->l[i], 3); break;
    }
    objsz = SZ[szi];
    if (kind == 0) {
        struct cmi_mempool *mp = cmi_mempool_create();
        cmi_mempool_initialize(mp, objsz, NUM[numi]);
        interpret(p, mp, 0, 0);
        verify_all("end");
        cmi_mempool_destroy(mp);
    } else {
        targ a[2] = { { p, 0, kind, szi, numi }, { p, 1, kind, szi, numi } };
        baton_begin(sched, 60);
        baton_spawn(thread_body, &a[0]);
        if (kind == 2) baton_spawn(thread_body, &a[1]);
        baton_run_all();
        baton_end();
        g_stats.faults = baton_switches();
    }
    g_stats.nontrivial = crossed_incr && allocs_total >= 8;
    if (crossed64) PROBE("mp.runs_crossing_64_chunks");
}

static void mp_gen(plan *p, uint64_t seed, const char *cfg)
{
    vrng r; vrng_seed(&r, seed);
    int kind = (int)vrng_below(&r, 3);
    const char *c = strstr(cfg, "kind=");
    if (c) kind = atoi(c + 5);
    int szi = (int)vrng_below(&r, NSZ), numi = (int)vrng_below(&r, NNUM);
    const bool big = vrng_chance(&r, 1, 5);           /* aim at the 64-chunk threshold */
    if (big && kind == 0) { szi = 5 + (int)vrng_below(&r, 4); numi = (int)vrng_below(&r, 3); }
    if (big && kind != 0) { szi = 5 + (int)vrng_below(&r, 4); }
    plan_add(p, "INIT", 4, (int64_t)szi, (int64_t)numi, (int64_t)kind, (int64_t)(vrng_next(&r) >> 20));
    const int n = 4 + (int)vrng_below(&r, 40);
    for (int i = 0; i < n; i++) {
        const unsigned k = (unsigned)vrng_below(&r, 100);
        const int64_t t = (int64_t)vrng_below(&r, 2);
        if (k < 50) {
            int64_t cnt = 1 + (int64_t)vrng_below(&r, 12);
            if (big && vrng_chance(&r, 1, 3)) cnt = 50 + (int64_t)vrng_below(&r, 120);
            if (vrng_chance(&r, 1, 40)) cnt = 500 + (int64_t)vrng_below(&r, 1500);
            plan_add(p, "A", 2, cnt, t);
        } else if (k < 88) plan_add(p, "F", 3, (int64_t)vrng_below(&r, 1000), (int64_t)(1 + vrng_below(&r, vrng_chance(&r, 1, 6) ? 100 : 8)), t);
        else plan_add(p, "V", 2, (int64_t)0, t);
    }
}

const engine eng_mempool = {
    .name = "mempool", .props = "C20", .gen = mp_gen, .run = mp_run,
    .rule = "histories with >= 8 allocations that forced at least one pool expansion",
};
