/* eng_experiment.c - C19: cimba_run_experiment runs every trial exactly once, isolated, and
 * independently of which worker thread runs which trial in which order.
 *
 * Plan lines:
 *   INIT ntrials nworkers sizeidx schedseed switchpct yieldevery
 *   TRIAL i kind seedcode n          trial i: content kind, seed, size parameter
 * cimba_run_experiment is called for real; pthread_create/join and cmi_cpu_cores are wrapped at
 * link time (baton.c): workers are real pthreads, parked and released one at a time at yield
 * points in the trial function (entry, exit, every few dispatched events).  The order of releases
 * IS the assignment of trials to workers and the completion order.
 */
#include "core.h"
#include "baton.h"
#include <pthread.h>
#include <stdlib.h>
#include <string.h>
#include <xmmintrin.h>
#include "cimba.h"
#include "cmb_priorityqueue.h"

int __real_pthread_create(pthread_t *, const pthread_attr_t *, void *(*)(void *), void *);
int __real_pthread_join(pthread_t, void **);

#define MAXTRIALS 400
#define NKINDS 11
static const size_t SIZES[] = { 9, 16, 17, 24, 40, 63, 64, 100, 200 };
#define NSIZES (sizeof SIZES / sizeof SIZES[0])

typedef struct { uint32_t seed; uint8_t kind; uint8_t n; uint16_t idx; } tparams;   /* first 8 bytes of every element */

static unsigned char *arr;
static size_t esz;
static size_t hdr;              /* 0, or 8 when every element starts with its own trial function (your_trial_func == NULL) */
static int fn_called[MAXTRIALS];       /* which of the per-trial functions ran the trial (1 or 2) */
static int ntrials;
static int calls[MAXTRIALS], active, max_active;
static int worker_of[MAXTRIALS]; static int worker_trials[BATON_MAX + 1];
static bool experiment_running;
static int yield_every;
static uint64_t total_events;

/* ---------------------------------------------------------------- trial content */
typedef struct { uint64_t r[6]; } tresult;
static uint64_t dbl(double d) { uint64_t v; memcpy(&v, &d, sizeof v); return v; }

static void run_queue(void)
{
    uint64_t n = 0;
    while (cmb_event_execute_next()) { total_events++; if (yield_every > 0 && (++n % (uint64_t)yield_every) == 0) baton_yield(); }
}

struct mg1 { struct cmb_buffer *buf; unsigned n; double svc_sum; unsigned served; uint64_t flipsum; double t_end; };
static void *mg1_arrivals(struct cmb_process *me, void *ctx)
{
    (void)me; struct mg1 *m = ctx;
    for (unsigned i = 0; i < m->n; i++) {
        (void)cmb_process_hold(cmb_random_exponential(1.0));
        uint64_t one = 1;
        (void)cmb_buffer_put(m->buf, &one);
    }
    return NULL;
}
static void *mg1_server(struct cmb_process *me, void *ctx)
{
    (void)me; struct mg1 *m = ctx;
    while (m->served < m->n) {
        uint64_t one = 1;
        if (cmb_buffer_get(m->buf, &one) != CMB_PROCESS_SUCCESS) break;
        const double s = cmb_random_gamma(2.0, 0.4) + (cmb_random_flip() ? 0.25 : 0.0);
        m->flipsum = m->flipsum * 3 + (uint64_t)cmb_random_flip();
        m->svc_sum += s;
        (void)cmb_process_hold(s);
        m->served++;
    }
    m->t_end = cmb_time();
    return NULL;
}

struct poolw { struct cmb_resourcepool *pool; unsigned n; uint64_t got[3], lost[3]; };
struct poolctx { struct poolw *w; int me; };
static void *pool_user(struct cmb_process *me, void *ctx)
{
    (void)me; struct poolctx *c = ctx; struct poolw *w = c->w;
    for (unsigned i = 0; i < w->n; i++) {
        const uint64_t amt = 1 + (uint64_t)cmb_random_dice(0, 2);
        const int64_t sig = (c->me == 2 && cmb_random_flip()) ? cmb_resourcepool_preempt(w->pool, amt) : cmb_resourcepool_acquire(w->pool, amt);
        if (sig == CMB_PROCESS_SUCCESS) {
            w->got[c->me] += amt;
            const int64_t s2 = cmb_process_hold(cmb_random_exponential(0.7));
            if (s2 == CMB_PROCESS_SUCCESS) cmb_resourcepool_release(w->pool, amt); else w->lost[c->me] += amt;
        } else w->lost[c->me]++;
        (void)cmb_process_hold(cmb_random_uniform(0.0, 0.5));
    }
    return NULL;
}

/* kind 6: object queue + priority queue pipeline (queue tag pools, two guards each) */
struct pipe { struct cmb_objectqueue *oq; struct cmb_priorityqueue *pq; unsigned n; uint64_t sum; uint64_t order; };
static void *pipe_producer(struct cmb_process *me, void *ctx)
{
    (void)me; struct pipe *w = ctx;
    for (unsigned i = 1; i <= w->n; i++) {
        (void)cmb_process_hold(cmb_random_exponential(0.5));
        (void)cmb_objectqueue_put(w->oq, (void *)(uintptr_t)i);
    }
    return NULL;
}
static void *pipe_middle(struct cmb_process *me, void *ctx)
{
    (void)me; struct pipe *w = ctx;
    for (unsigned i = 1; i <= w->n; i++) {
        void *o = NULL;
        if (cmb_objectqueue_get(w->oq, &o) != CMB_PROCESS_SUCCESS) break;
        (void)cmb_priorityqueue_put(w->pq, o, (int64_t)cmb_random_dice(0, 3), NULL);
        if (cmb_random_flip()) (void)cmb_process_hold(cmb_random_uniform(0.0, 1.0));
    }
    return NULL;
}
static void *pipe_consumer(struct cmb_process *me, void *ctx)
{
    (void)me; struct pipe *w = ctx;
    for (unsigned i = 1; i <= w->n; i++) {
        void *o = NULL;
        (void)cmb_process_hold(cmb_random_exponential(0.8));
        if (cmb_priorityqueue_get(w->pq, &o) != CMB_PROCESS_SUCCESS) break;
        w->sum += (uint64_t)(uintptr_t)o; w->order = w->order * 31 + (uint64_t)(uintptr_t)o;
    }
    return NULL;
}

/* kind 8: ties - processes of EQUAL priority that queue in the SAME instant for one resource, and equal-priority pool holders of
 * which one is preempted: who is served / robbed first must not depend on what the worker thread did before (allocation history) */
struct tiew { struct cmb_resource *res; struct cmb_resourcepool *pool; uint64_t order, victims; unsigned n; };
struct tiectx { struct tiew *w; unsigned me; };
static void *tie_user(struct cmb_process *me, void *ctx)
{
    (void)me; struct tiectx *c = ctx; struct tiew *w = c->w;
    if (cmb_resourcepool_acquire(w->pool, 1) != CMB_PROCESS_SUCCESS) return NULL;
    if (cmb_resource_acquire(w->res) == CMB_PROCESS_SUCCESS) {        /* all of them ask at t = 0 */
        w->order = w->order * 16 + (c->me + 1);
        (void)cmb_process_hold(1.0);
        cmb_resource_release(w->res);
    }
    const int64_t s = cmb_process_hold(100.0);
    if (s == CMB_PROCESS_PREEMPTED) w->victims = w->victims * 16 + (c->me + 1);
    else cmb_resourcepool_release(w->pool, 1);
    return NULL;
}
static void *tie_boss(struct cmb_process *me, void *ctx)
{
    (void)me; struct tiew *w = ctx;
    (void)cmb_process_hold(50.0);
    for (unsigned i = 0; i < 2; i++) { (void)cmb_resourcepool_preempt(w->pool, 1); (void)cmb_process_hold(1.0); }
    cmb_resourcepool_release(w->pool, 2);
    return NULL;
}

/* kind 7: a condition observing a resource (observer tags, forwarded signals) */
struct condw { struct cmb_resource *res; struct cmb_condition *cond; unsigned n; uint64_t woke; double t_last; };
static bool res_is_free(const struct cmb_condition *c, const struct cmb_process *p, const void *ctx)
{
    (void)c; (void)p; const struct condw *w = ctx;
    return cmb_resource_available(w->res) == 1;
}
static void *cond_user(struct cmb_process *me, void *ctx)
{
    (void)me; struct condw *w = ctx;
    for (unsigned i = 0; i < w->n; i++) {
        if (cmb_resource_acquire(w->res) != CMB_PROCESS_SUCCESS) break;
        (void)cmb_process_hold(cmb_random_exponential(1.0));
        cmb_resource_release(w->res);
        (void)cmb_process_hold(cmb_random_exponential(0.3));
    }
    return NULL;
}
static void *cond_watcher(struct cmb_process *me, void *ctx)
{
    (void)me; struct condw *w = ctx;
    for (unsigned i = 0; i < w->n; i++) {
        (void)cmb_process_hold(cmb_random_uniform(0.1, 0.9));
        if (cmb_condition_wait(w->cond, res_is_free, w) != CMB_PROCESS_SUCCESS) break;
        w->woke++; w->t_last = cmb_time();
    }
    return NULL;
}

/* kind 10: the process was created and initialised by the MAIN thread before the experiment (one per trial and phase); the trial
 * only starts it, runs it and takes it down.  Nothing in the headers says a process must be initialised by the thread that runs it. */
struct prew { struct cmb_process *p; unsigned n; double acc; uint64_t h; };
static struct prew pre[3][MAXTRIALS];
static int phase;                /* 0: the experiment, 1: each trial alone in a fresh thread, 2: one after another */
static void *pre_body(struct cmb_process *me, void *ctx)
{
    (void)me; struct prew *w = ctx;
    for (unsigned i = 0; i < w->n; i++) {
        const double d = cmb_random_exponential(1.0);
        if (cmb_process_hold(d) != CMB_PROCESS_SUCCESS) break;
        w->acc += d; w->h = w->h * 5 + (uint64_t)cmb_random_flip();
    }
    return NULL;
}

static void *looper(struct cmb_process *me, void *ctx)
{
    (void)me; uint64_t *cnt = ctx;
    for (;;) { if (cmb_process_hold(cmb_random_exponential(1.0)) != CMB_PROCESS_SUCCESS) break; (*cnt)++; }
    return NULL;
}
static void end_event(void *s, void *o) { (void)s; (void)o; cmb_event_queue_clear(); }

static void trial_compute(const tparams *tp, tresult *res)
{
    memset(res, 0, sizeof *res);
    cmb_logger_flags_off(CMB_LOGGER_INFO | CMB_LOGGER_WARNING);      /* the mask is thread-local: a fresh worker logs everything */
    cmb_random_initialize(0xC19000000000ull + tp->seed);
    res->r[5] = 0x7121A1ull + tp->idx;
    switch (tp->kind % NKINDS) {
    case 0: break;                                                   /* an empty trial */
    case 1: case 4: {
        if (tp->kind % NKINDS == 4) { cmb_logger_flags_off(CMB_LOGGER_ERROR); cmb_logger_flags_on(0x1u); }
        cmb_event_queue_initialize(0.0);
        struct mg1 m; memset(&m, 0, sizeof m); m.n = 3 + tp->n % 40u;
        m.buf = cmb_buffer_create(); cmb_buffer_initialize(m.buf, "q", CMB_UNLIMITED);
        struct cmb_process *a = cmb_process_create(), *s = cmb_process_create();
        cmb_process_initialize(a, "arr", mg1_arrivals, &m, 1); cmb_process_initialize(s, "srv", mg1_server, &m, 0);
        cmb_process_start(a); cmb_process_start(s);
        baton_yield();
        run_queue();
        res->r[0] = dbl(m.t_end); res->r[1] = m.served; res->r[2] = dbl(m.svc_sum); res->r[3] = m.flipsum; res->r[4] = dbl(cmb_time());
        cmb_process_terminate(a); cmb_process_destroy(a); cmb_process_terminate(s); cmb_process_destroy(s);
        cmb_buffer_destroy(m.buf);
        cmb_event_queue_terminate();
        break; }
    case 2: {
        cmb_event_queue_initialize(0.0);
        struct poolw w; memset(&w, 0, sizeof w); w.n = 2 + tp->n % 12u;
        w.pool = cmb_resourcepool_create(); cmb_resourcepool_initialize(w.pool, "p", 4);
        struct cmb_process *p[3]; struct poolctx c[3];
        for (int i = 0; i < 3; i++) { c[i].w = &w; c[i].me = i; p[i] = cmb_process_create(); cmb_process_initialize(p[i], "u", pool_user, &c[i], i); cmb_process_start(p[i]); }
        baton_yield();
        run_queue();
        for (int i = 0; i < 3; i++) { res->r[i] = w.got[i] * 1000 + w.lost[i]; }
        res->r[3] = dbl(cmb_time()); res->r[4] = cmb_resourcepool_in_use(w.pool);
        for (int i = 0; i < 3; i++) { cmb_process_terminate(p[i]); cmb_process_destroy(p[i]); }
        cmb_resourcepool_destroy(w.pool);
        cmb_event_queue_terminate();
        break; }
    case 8: {
        cmb_event_queue_initialize(0.0);
        struct tiew w; memset(&w, 0, sizeof w); w.n = 3 + tp->n % 5u;
        /* an allocation history that differs from trial to trial: whatever the thread-local pools and malloc hand out next moves */
        void *junk[8]; const unsigned nj = tp->seed % 8u; for (unsigned i = 0; i < nj; i++) junk[i] = malloc(24 + 16 * ((tp->seed >> 3) % 40u));
        w.res = cmb_resource_create(); cmb_resource_initialize(w.res, "r");
        w.pool = cmb_resourcepool_create(); cmb_resourcepool_initialize(w.pool, "p", w.n);
        struct cmb_process *p[8]; struct tiectx c[8];
        for (unsigned i = 0; i < w.n; i++) { c[i].w = &w; c[i].me = i; p[i] = cmb_process_create(); cmb_process_initialize(p[i], "t", tie_user, &c[i], 0); cmb_process_start(p[i]); }
        struct cmb_process *boss = cmb_process_create(); cmb_process_initialize(boss, "b", tie_boss, &w, 5); cmb_process_start(boss);
        baton_yield();
        run_queue();
        res->r[0] = w.order; res->r[1] = w.victims; res->r[2] = dbl(cmb_time()); res->r[3] = cmb_resourcepool_in_use(w.pool);
        for (unsigned i = 0; i < w.n; i++) { cmb_process_terminate(p[i]); cmb_process_destroy(p[i]); }
        cmb_process_terminate(boss); cmb_process_destroy(boss);
        cmb_resourcepool_destroy(w.pool); cmb_resource_destroy(w.res);
        for (unsigned i = 0; i < nj; i++) free(junk[i]);
        cmb_event_queue_terminate();
        break; }
    case 10: {
        struct prew *w = &pre[phase][tp->idx % MAXTRIALS];
        if (w->p == NULL) break;                                     /* (replayed plan with another shape: nothing prepared) */
        PROBE("exp.process_initialised_by_main_thread");
        cmb_event_queue_initialize(0.0);
        cmb_process_start(w->p);
        baton_yield();
        run_queue();
        res->r[0] = dbl(w->acc); res->r[1] = w->h; res->r[2] = dbl(cmb_time());
        cmb_process_terminate(w->p); cmb_process_destroy(w->p); w->p = NULL;
        cmb_event_queue_terminate();
        break; }
    case 9: {                                                         /* a trial that gives up: a few draws, then (in the experiment) cmb_logger_error */
        res->r[0] = cmb_random_sfc64(); res->r[1] = dbl(cmb_random_exponential(1.0)); res->r[2] = 0xBA11ull;
        break; }
    case 3: {                                                         /* sampling only, flip- and gamma-heavy */
        uint64_t h = 0; double acc = 0.0;
        const unsigned n = 5 + tp->n;
        for (unsigned i = 0; i < n; i++) {
            h = h * 2 + (uint64_t)cmb_random_flip();
            if (i % 3 == 0) acc += cmb_random_gamma(0.5 + (double)(tp->n % 4), 1.0);
            if (i % 5 == 0) h ^= cmb_random_geometric(0.3);
            if (i % 7 == 0) { baton_yield(); h ^= cmb_random_sfc64(); }
        }
        res->r[0] = h; res->r[1] = dbl(acc); res->r[2] = cmb_random_sfc64();
        break; }
    case 6: {
        cmb_event_queue_initialize(0.0);
        struct pipe w; memset(&w, 0, sizeof w); w.n = 3 + tp->n % 30u;
        w.oq = cmb_objectqueue_create(); cmb_objectqueue_initialize(w.oq, "oq", 2);
        w.pq = cmb_priorityqueue_create(); cmb_priorityqueue_initialize(w.pq, "pq", 3);
        struct cmb_process *p[3];
        cmb_process_func *f[3] = { pipe_producer, pipe_middle, pipe_consumer };
        for (int i = 0; i < 3; i++) { p[i] = cmb_process_create(); cmb_process_initialize(p[i], "pp", f[i], &w, 2 - i); cmb_process_start(p[i]); }
        baton_yield();
        run_queue();
        res->r[0] = w.sum; res->r[1] = w.order; res->r[2] = dbl(cmb_time()); res->r[3] = cmb_priorityqueue_length(w.pq) * 100 + cmb_objectqueue_length(w.oq);
        for (int i = 0; i < 3; i++) { cmb_process_terminate(p[i]); cmb_process_destroy(p[i]); }
        cmb_priorityqueue_destroy(w.pq); cmb_objectqueue_destroy(w.oq);
        cmb_event_queue_terminate();
        break; }
    case 7: {
        cmb_event_queue_initialize(0.0);
        struct condw w; memset(&w, 0, sizeof w); w.n = 2 + tp->n % 10u;
        w.res = cmb_resource_create(); cmb_resource_initialize(w.res, "r");
        w.cond = cmb_condition_create(); cmb_condition_initialize(w.cond, "c");
        cmb_condition_subscribe(w.cond, &w.res->guard);
        struct cmb_process *p[3];
        cmb_process_func *f[3] = { cond_user, cond_user, cond_watcher };
        for (int i = 0; i < 3; i++) { p[i] = cmb_process_create(); cmb_process_initialize(p[i], "cw", f[i], &w, i); cmb_process_start(p[i]); }
        baton_yield();
        run_queue();
        res->r[0] = w.woke; res->r[1] = dbl(w.t_last); res->r[2] = dbl(cmb_time());
        (void)cmb_condition_unsubscribe(w.cond, &w.res->guard);
        for (int i = 0; i < 3; i++) { if (cmb_process_status(p[i]) == CMB_PROCESS_RUNNING) cmb_process_stop(p[i], NULL); cmb_process_terminate(p[i]); cmb_process_destroy(p[i]); }
        cmb_condition_destroy(w.cond); cmb_resource_destroy(w.res);
        cmb_event_queue_terminate();
        break; }
    default: {                                                        /* leaves processes unfinished */
        cmb_event_queue_initialize(0.0);
        uint64_t cnt[3] = { 0, 0, 0 };
        struct cmb_process *p[3];
        for (int i = 0; i < 3; i++) { p[i] = cmb_process_create(); cmb_process_initialize(p[i], "l", looper, &cnt[i], i); cmb_process_start(p[i]); }
        (void)cmb_event_schedule(end_event, NULL, NULL, 5.0 + tp->n % 10u, 100);
        baton_yield();
        run_queue();
        res->r[0] = cnt[0]; res->r[1] = cnt[1]; res->r[2] = cnt[2]; res->r[3] = dbl(cmb_time());
        for (int i = 0; i < 3; i++) { cmb_process_stop(p[i], NULL); cmb_process_terminate(p[i]); cmb_process_destroy(p[i]); }
        cmb_event_queue_terminate();
        break; }
    }
    if (tp->n % 3u != 0u) cmb_random_terminate();                    /* most trials end the documented way; some leave the generator as it is */
}

static void store_result(unsigned char *elem, const tresult *res)
{
    const size_t room = esz - hdr - sizeof(tparams);
    memcpy(elem + hdr + sizeof(tparams), res, room < sizeof *res ? room : sizeof *res);
}

static void trial_fn(void *vp)
{
    unsigned char *elem = vp;
    baton_yield();                                                   /* trial entry */
    const ptrdiff_t off = elem - arr;
    if (off < 0 || (size_t)off % esz != 0 || (size_t)off / esz >= (size_t)ntrials) {
        viol("C19", "wrong-element", "trial function called with %p, not an element of the array", vp);
        return;
    }
    const int i = (int)((size_t)off / esz);
    calls[i]++;
    active++; if (active > max_active) max_active = active;
    if (!experiment_running) viol("C19", "call-outside-experiment", "trial %d called outside cimba_run_experiment", i);
    const int w = baton_self();
    worker_of[i] = w;
    if (w >= 0) { if (worker_trials[w] > 0) PROBE("exp.trial_on_dirty_worker"); worker_trials[w]++; }
    tparams tp; memcpy(&tp, elem + hdr, sizeof tp);
    tresult res;
    trial_compute(&tp, &res);
    store_result(elem, &res);
    TR2("trial-done", i, w);
    active--;
    baton_yield();                                                   /* trial exit */
    if (tp.kind % NKINDS == 9) {
        /* the documented way for one trial to bail out: ends this worker thread, the experiment has to carry on with the other trials */
        PROBE("exp.trial_bailed_out_with_logger_error");
        cmb_logger_flags_off(CMB_LOGGER_ERROR);
        cmb_logger_error(stderr, "trial %d gives up", i);
    }
}
/* per-trial functions (documented use: your_trial_func == NULL, the first member of each trial struct is the function to call) */
static void trial_fn_a(void *vp) { const ptrdiff_t off = (unsigned char *)vp - arr; if (off >= 0 && (size_t)off / esz < MAXTRIALS) fn_called[(size_t)off / esz] = 1; trial_fn(vp); }
static void trial_fn_b(void *vp) { const ptrdiff_t off = (unsigned char *)vp - arr; if (off >= 0 && (size_t)off / esz < MAXTRIALS) fn_called[(size_t)off / esz] = 2; trial_fn(vp); }

static void *ref_thread(void *vp)
{
    /* reference: one trial in a fresh thread, nothing before it, nobody beside it */
    unsigned char *elem = vp;
    tparams tp; memcpy(&tp, elem + hdr, sizeof tp);
    tresult res;
    trial_compute(&tp, &res);
    store_result(elem, &res);
    cmi_mempool_cleanup(NULL);
    return NULL;
}
static unsigned char *seq_arr;
static void *seq_thread(void *vp)
{
    (void)vp;
    for (int i = ntrials - 1; i >= 0; i--) {                          /* one after another, in another order */
        unsigned char *elem = seq_arr + (size_t)i * esz;
        tparams tp; memcpy(&tp, elem + hdr, sizeof tp);
        tresult res;
        trial_compute(&tp, &res);
        store_result(elem, &res);
    }
    cmi_mempool_cleanup(NULL);
    return NULL;
}

static void ex_run(const plan *p)
{
    cmb_logger_flags_off(CMB_LOGGER_INFO | CMB_LOGGER_WARNING);
    ntrials = 4; int nworkers = 3, sizeidx = 3, pct = 60; uint64_t sched = 1; yield_every = 5;
    for (int i = 0; i < p->n; i++) if (pis(&p->l[i], "INIT")) {
        const pline *l = &p->l[i];
        ntrials = 1 + (int)((uint64_t)pa(l, 0) % MAXTRIALS); nworkers = 1 + (int)((uint64_t)pa(l, 1) % 9);
        sizeidx = (int)((uint64_t)pa(l, 2) % NSIZES); sched = (uint64_t)pa(l, 3); pct = (int)((uint64_t)pa(l, 4) % 101);
        yield_every = (int)((uint64_t)pa(l, 5) % 50);
        break;
    }
    esz = SIZES[sizeidx];
    hdr = 0;
    for (int i = 0; i < p->n; i++) if (pis(&p->l[i], "PERFN") && pa(&p->l[i], 0)) { hdr = sizeof(cimba_trial_func *); esz = (esz + 7u) & ~(size_t)7u; if (esz < 24) esz = 24; }
    memset(fn_called, 0, sizeof fn_called);
    arr = calloc((size_t)ntrials + 1, esz);
    unsigned char *refarr = calloc((size_t)ntrials + 1, esz);
    seq_arr = calloc((size_t)ntrials + 1, esz);
    for (int i = 0; i < ntrials; i++) {
        tparams tp = { .seed = (uint32_t)(1000 + i), .kind = (uint8_t)(i % NKINDS), .n = (uint8_t)(5 + i), .idx = (uint16_t)i };
        for (int k = 0; k < p->n; k++) {
            const pline *l = &p->l[k];
            if (pis(l, "TRIAL") && (int)((uint64_t)pa(l, 0) % (uint64_t)ntrials) == i) { tp.kind = (uint8_t)((uint64_t)pa(l, 1) % NKINDS); tp.seed = (uint32_t)pa(l, 2); tp.n = (uint8_t)pa(l, 3); }
        }
        if (hdr) { cimba_trial_func *f = (tp.seed + (uint32_t)i) % 2 ? trial_fn_a : trial_fn_b; memcpy(arr + (size_t)i * esz, &f, sizeof f); }
        memcpy(arr + (size_t)i * esz + hdr, &tp, sizeof tp);
        memset(arr + (size_t)i * esz + hdr + sizeof tp, 0xEE, esz - hdr - sizeof tp);
    }
    memset(pre, 0, sizeof pre);
    for (int i = 0; i < ntrials; i++) {
        tparams tp; memcpy(&tp, arr + (size_t)i * esz + hdr, sizeof tp);
        if (tp.kind % NKINDS != 10) continue;
        for (int ph = 0; ph < 3; ph++) {
            struct prew *w = &pre[ph][i];
            w->n = 2 + tp.n % 9u; w->p = cmb_process_create();
            cmb_process_initialize(w->p, "pre", pre_body, w, 0);
        }
    }
    memset(arr + (size_t)ntrials * esz, 0x5A, esz);                    /* canary element after the array */
    memcpy(refarr, arr, ((size_t)ntrials + 1) * esz);
    memcpy(seq_arr, arr, ((size_t)ntrials + 1) * esz);
    memset(calls, 0, sizeof calls); memset(worker_trials, 0, sizeof worker_trials);
    active = max_active = 0; total_events = 0;

    const uint32_t csr0 = _mm_getcsr();
    phase = 0;
    baton_begin(sched, pct);
    baton_set_cores((uint32_t)nworkers);
    experiment_running = true;
    libstate_snapshot();
    cimba_run_experiment(arr, (uint64_t)ntrials, esz, hdr ? NULL : trial_fn);
    if (hdr) PROBE("exp.per_trial_functions");
    experiment_running = false;
    const int active_at_return = active;
    int undone = 0;
    for (int i = 0; i < ntrials; i++) if (calls[i] == 0) undone++;
    baton_run_all();                       /* whatever was not joined is drained here, so that the run can end */
    g_stats.faults = baton_switches();
    baton_end();
    _mm_setcsr(csr0);

    {   /* trials must be isolated: no worker may have written library state that is shared between threads */
        size_t off = 0;
        const char *m = libstate_changed(&off);
        if (m) viol("C19", "shared-library-state-written", "static non-thread-local storage of %s (offset %zu) changed while the trials ran: trials on different workers share it", m, off);
        if (libstate_ranges() > 0) PROBE("exp.library_static_state_compared");
    }
    if (active_at_return != 0 || undone != 0)
        viol("C19", "returned-early", "cimba_run_experiment returned while %d trial calls were still running and %d trials had not begun", active_at_return, undone);
    for (int i = 0; i < ntrials; i++)
        if (calls[i] != 1) viol("C19", calls[i] == 0 ? "trial-not-run" : "trial-run-twice", "trial %d of %d was called %d times (%d workers)", i, ntrials, calls[i], nworkers);
    if (hdr) for (int i = 0; i < ntrials; i++) {
        cimba_trial_func *f; memcpy(&f, arr + (size_t)i * esz, sizeof f);
        const int want = (f == trial_fn_a) ? 1 : (f == trial_fn_b) ? 2 : -1;
        if (calls[i] == 1 && fn_called[i] != want) viol("C19", "wrong-trial-function", "trial %d was run by per-trial function %d, its struct names function %d", i, fn_called[i], want);
    }
    for (size_t b = 0; b < esz; b++) if (arr[(size_t)ntrials * esz + b] != 0x5A) { viol("C19", "wrote-past-array", "the element after the trial array was modified"); break; }

    if (g_nviol == 0) {
        phase = 1;
        for (int i = 0; i < ntrials; i++) {
            pthread_t th;
            __real_pthread_create(&th, NULL, ref_thread, refarr + (size_t)i * esz);
            __real_pthread_join(th, NULL);
        }
        pthread_t th;
        phase = 2;
        __real_pthread_create(&th, NULL, seq_thread, NULL);
        __real_pthread_join(th, NULL);
        for (int i = 0; i < ntrials; i++) {
            if (memcmp(seq_arr + (size_t)i * esz, refarr + (size_t)i * esz, esz) != 0) {
                tparams tp; memcpy(&tp, arr + (size_t)i * esz + hdr, sizeof tp);
                viol("C19", "sequential-depends-on-earlier-trial", "trial %d (kind %d): result in a one-after-another run differs from its result in a fresh thread", i, tp.kind % NKINDS);
                break;
            }
            if (memcmp(arr + (size_t)i * esz, refarr + (size_t)i * esz, esz) != 0) {
                tparams tp; memcpy(&tp, arr + (size_t)i * esz + hdr, sizeof tp);
                viol("C19", worker_trials[worker_of[i] < 0 ? 0 : worker_of[i]] > 1 ? "result-depends-on-schedule/dirty-worker" : "result-depends-on-schedule",
                     "trial %d (kind %d, on worker %d): result differs from the same trial run alone in a fresh thread", i, tp.kind % NKINDS, worker_of[i]);
                break;
            }
        }
    }
    for (int i = 0; i < ntrials; i++) TR3("res", i, worker_of[i], mix64(arr[(size_t)i * esz + hdr + 8], arr[(size_t)i * esz + esz - 1]));
    g_stats.events = total_events;
    int busy = 0; for (int w = 0; w < BATON_MAX; w++) if (worker_trials[w] > 1) busy++;
    g_stats.nontrivial = busy > 0 && g_stats.faults > 0;
    if (max_active > 1) PROBE("exp.trials_overlapped");
    if (ntrials < nworkers) PROBE("exp.fewer_trials_than_workers");
    if (ntrials == nworkers) PROBE("exp.trials_equal_workers");
    if (ntrials > 3 * nworkers) PROBE("exp.many_more_trials_than_workers");
    if (ntrials >= 64 * nworkers) PROBE("exp.trials_ge_64_per_worker");
    for (int ph = 0; ph < 3; ph++) for (int i = 0; i < MAXTRIALS; i++) if (pre[ph][i].p) { cmb_process_terminate(pre[ph][i].p); cmb_process_destroy(pre[ph][i].p); pre[ph][i].p = NULL; }
    free(arr); free(refarr); free(seq_arr);
}

static void ex_gen(plan *p, uint64_t seed, const char *cfg)
{
    vrng r; vrng_seed(&r, seed);
    if (cfg && strstr(cfg, "many=1")) {
        /* very many short trials for few workers (whatever a dispenser does differently when the trials outnumber the cores by far),
         * some of which give up and take their worker with them */
        const int nw = 1 + (int)vrng_below(&r, 3);
        const int nt = 64 * nw + (int)vrng_below(&r, (uint64_t)(MAXTRIALS - 64 * nw));
        plan_add(p, "INIT", 6, (int64_t)(nt - 1), (int64_t)(nw - 1), (int64_t)vrng_below(&r, NSIZES), (int64_t)(vrng_next(&r) >> 16),
                 (int64_t)(10 + vrng_below(&r, 91)), (int64_t)vrng_below(&r, 30));
        if (vrng_chance(&r, 1, 4)) plan_add(p, "PERFN", 1, (int64_t)1);
        static const int cheap[] = { 0, 3, 0, 3, 9, 1, 6 };
        for (int i = 0; i < nt; i++) {
            const int kind = vrng_chance(&r, 1, 40) ? 9 : cheap[vrng_below(&r, vrng_chance(&r, 1, 8) ? 7 : 4)];
            plan_add(p, "TRIAL", 4, (int64_t)i, (int64_t)kind, (int64_t)vrng_below(&r, 100000), (int64_t)vrng_below(&r, 40));
        }
        return;
    }
    const int nw = 1 + (int)vrng_below(&r, 9);
    int nt;
    switch (vrng_below(&r, 5)) {
        case 0: nt = 1; break;
        case 1: nt = 1 + (int)vrng_below(&r, (uint64_t)nw); break;
        case 2: nt = nw; break;
        default: nt = nw + 1 + (int)vrng_below(&r, 30); break;
    }
    if (nt > MAXTRIALS) nt = MAXTRIALS;
    plan_add(p, "INIT", 6, (int64_t)(nt - 1), (int64_t)(nw - 1), (int64_t)vrng_below(&r, NSIZES), (int64_t)(vrng_next(&r) >> 16),
             (int64_t)(10 + vrng_below(&r, 91)), (int64_t)vrng_below(&r, 30));
    const bool shared_seed = vrng_chance(&r, 1, 3);
    if (vrng_chance(&r, 1, 4)) plan_add(p, "PERFN", 1, (int64_t)1);
    for (int i = 0; i < nt; i++)
        plan_add(p, "TRIAL", 4, (int64_t)i, (int64_t)vrng_below(&r, NKINDS), shared_seed ? (int64_t)42 : (int64_t)vrng_below(&r, 100000), (int64_t)vrng_below(&r, 200));
}

const engine eng_experiment = {
    .name = "experiment", .props = "C19", .gen = ex_gen, .run = ex_run,
    .rule = "runs in which some worker thread ran more than one trial and the baton changed hands between workers at least once",
};
