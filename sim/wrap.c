/* link-time seams: pthread_create/join and cmi_cpu_cores (see baton.c once built) */
#include <pthread.h>
#include <stdint.h>
int __real_pthread_create(pthread_t *, const pthread_attr_t *, void *(*)(void *), void *);
int __real_pthread_join(pthread_t, void **);
uint32_t __real_cmi_cpu_cores(void);
int __attribute__((weak)) __wrap_pthread_create(pthread_t *t, const pthread_attr_t *a, void *(*f)(void *), void *arg) { return __real_pthread_create(t, a, f, arg); }
int __attribute__((weak)) __wrap_pthread_join(pthread_t t, void **r) { return __real_pthread_join(t, r); }
uint32_t __attribute__((weak)) __wrap_cmi_cpu_cores(void) { return __real_cmi_cpu_cores(); }
