/* main.c - cimsim driver: seed -> plan -> execution, worker protocol on stdout.
 *
 *   cimsim run <engine> <base> <i0> <i1> [--cfg s] [--only props]   worker: run seeds mix64(base,i)
 *   cimsim one <engine> <runseed> [--cfg s] [--only props] [--trace] [--plan]
 *   cimsim gen <engine> <runseed> [--cfg s]                          print the plan
 *   cimsim replay <file> [--only props] [--trace]                    run a plan file
 */
#include "core.h"
#include <signal.h>
#include <stdlib.h>
#include <string.h>
#include <sys/personality.h>
#include <unistd.h>

#if defined(__has_feature)
#  if __has_feature(address_sanitizer)
#    define VERIF_ASAN 1
#  endif
#endif
#ifdef __SANITIZE_ADDRESS__
#  define VERIF_ASAN 1
#endif

#ifdef VERIF_ASAN
__attribute__((used, visibility("default"))) const char *__asan_default_options(void)
{
    return "exitcode=77:detect_leaks=0:detect_stack_use_after_return=0:halt_on_error=1:"
           "abort_on_error=0:handle_abort=0:allocator_may_return_null=0:print_legend=0:"
           "print_summary=1:handle_sigfpe=0";
}
__attribute__((used, visibility("default"))) const char *__ubsan_default_options(void)
{
    return "halt_on_error=1:print_stacktrace=1:exitcode=77";
}
#endif

const engine *engine_by_name(const char *name)
{
    static const engine *all[] = { &eng_events, &eng_hheap, &eng_coro, &eng_procs,
                                   &eng_mempool, &eng_rng, &eng_experiment, &eng_util, &eng_teardown };
    for (size_t i = 0; i < sizeof all / sizeof all[0]; i++)
        if (!strcmp(all[i]->name, name)) return all[i];
    die("unknown engine %s", name);
}

static volatile uint64_t cur_seed;

static void crash_handler(int sig)
{
    char buf[96];
    int n = snprintf(buf, sizeof buf, "\nCRASH %" PRIu64 " signal %d\n", (uint64_t)cur_seed, sig);
    if (n > 0) { ssize_t w = write(1, buf, (size_t)n); (void)w; }
    _exit(70);
}

static void install_handlers(void)
{
    static char altstack[1 << 16];
    stack_t ss = { .ss_sp = altstack, .ss_size = sizeof altstack, .ss_flags = 0 };
    sigaltstack(&ss, NULL);
    struct sigaction sa;
    memset(&sa, 0, sizeof sa);
    sa.sa_handler = crash_handler;
    sa.sa_flags = SA_ONSTACK | SA_RESETHAND;
    sigaction(SIGABRT, &sa, NULL);
    sigaction(SIGFPE, &sa, NULL);
    sigaction(SIGILL, &sa, NULL);
    sigaction(SIGALRM, &sa, NULL);        /* watchdog: a run that does not end within 10 s of CPU-independent wall time */
#ifndef VERIF_ASAN
    sigaction(SIGSEGV, &sa, NULL);
    sigaction(SIGBUS, &sa, NULL);
#endif
}

static void reset_run_state(void)
{
    g_nviol = 0;
    g_trace_hash = 0xcbf29ce484222325ull;
    memset(&g_stats, 0, sizeof g_stats);
}

static void report(uint64_t seed)
{
    for (int i = 0; i < g_nviol; i++)
        printf("V %" PRIu64 " %s %s | %s\n", seed, g_viol[i].prop, g_viol[i].sig, g_viol[i].msg);
    printf("END %" PRIu64 " %016" PRIx64 " %" PRIu64 " %.17g %" PRIu64 " %d %d %d\n",
           seed, g_trace_hash, g_stats.events, g_stats.simtime, g_stats.faults,
           (int)g_stats.nontrivial, (int)g_stats.budget, g_nviol);
    fflush(stdout);
}

static void report_counters(void)
{
    printf("CTR");
    for (int i = 0; i < g_nctr; i++) printf(" %s=%" PRIu64, g_ctr[i].name, g_ctr[i].v);
    printf("\nDONE\n");
    fflush(stdout);
}

static const char *optval(int argc, char **argv, const char *name)
{
    for (int i = 1; i + 1 < argc; i++) if (!strcmp(argv[i], name)) return argv[i + 1];
    return NULL;
}
static bool optflag(int argc, char **argv, const char *name)
{
    for (int i = 1; i < argc; i++) if (!strcmp(argv[i], name)) return true;
    return false;
}

int main(int argc, char **argv)
{
    /* no hidden inputs: switch address-space randomisation off and re-exec once */
    if (!getenv("VERIF_NOASLR_DONE")) {
        const int pers = personality(0xffffffff);
        if (pers != -1 && !(pers & ADDR_NO_RANDOMIZE)
            && personality((unsigned long)pers | ADDR_NO_RANDOMIZE) != -1) {
            setenv("VERIF_NOASLR_DONE", "1", 1);
            execv("/proc/self/exe", argv);
        }
        setenv("VERIF_NOASLR_DONE", "1", 1);
    }

    if (argc < 3) die("usage: cimsim run|one|gen|replay ...");
    setvbuf(stdout, NULL, _IOLBF, 0);
    install_handlers();
    const char *cfg = optval(argc, argv, "--cfg");
    if (!cfg) cfg = "";
    g_only_prop = optval(argc, argv, "--only");
    g_trace_on = optflag(argc, argv, "--trace");

    if (!strcmp(argv[1], "run") && argc >= 6) {
        const engine *e = engine_by_name(argv[2]);
        const uint64_t base = strtoull(argv[3], NULL, 10);
        const uint64_t i0 = strtoull(argv[4], NULL, 10), i1 = strtoull(argv[5], NULL, 10);
        for (uint64_t i = i0; i < i1; i++) {
            const uint64_t seed = mix64(base, i);
            cur_seed = seed;
            printf("START %" PRIu64 "\n", seed);
            fflush(stdout);
            alarm(10);
            install_handlers();
            plan p;
            plan_init(&p, e->name, seed);
            e->gen(&p, seed, cfg);
            reset_run_state();
            e->run(&p);
            report(seed);
            plan_free(&p);
        }
        report_counters();
        return 0;
    }
    if (!strcmp(argv[1], "sweep") && argc >= 6) {
        /* single-fault sweep: for each base seed every (blocking call x instant in its window x fault kind x priority side) */
        const engine *e = engine_by_name(argv[2]);
        if (!e->sweep) die("engine %s has no sweep", e->name);
        const uint64_t base = strtoull(argv[3], NULL, 10);
        const uint64_t i0 = strtoull(argv[4], NULL, 10), i1 = strtoull(argv[5], NULL, 10);
        for (uint64_t i = i0; i < i1; i++) {
            const uint64_t bseed = mix64(base, i);
            const int n = e->sweep(bseed, cfg, -1, NULL);
            for (int k = 0; k < n; k++) {
                plan p;
                e->sweep(bseed, cfg, k, &p);
                cur_seed = p.seed;
                printf("SW %" PRIu64 " %" PRIu64 " %d\nSTART %" PRIu64 "\n", p.seed, bseed, k, p.seed);
                fflush(stdout);
                alarm(10);
                reset_run_state();
                e->run(&p);
                report(p.seed);
                plan_free(&p);
            }
            PROBE("sweep.base_programs");
        }
        report_counters();
        return 0;
    }
    if (!strcmp(argv[1], "sweepgen") && argc >= 5) {
        const engine *e = engine_by_name(argv[2]);
        if (!e->sweep) die("engine %s has no sweep", e->name);
        plan p;
        e->sweep(strtoull(argv[3], NULL, 10), cfg, atoi(argv[4]), &p);
        plan_write(&p, stdout);
        return 0;
    }
    if ((!strcmp(argv[1], "one") || !strcmp(argv[1], "gen")) && argc >= 4) {
        const engine *e = engine_by_name(argv[2]);
        const uint64_t seed = strtoull(argv[3], NULL, 10);
        cur_seed = seed;
        plan p;
        plan_init(&p, e->name, seed);
        e->gen(&p, seed, cfg);
        if (!strcmp(argv[1], "gen") || optflag(argc, argv, "--plan")) plan_write(&p, stdout);
        if (!strcmp(argv[1], "gen")) return 0;
        printf("START %" PRIu64 "\n", seed);
        alarm(10);
        reset_run_state();
        e->run(&p);
        report(seed);
        report_counters();
        return 0;
    }
    if (!strcmp(argv[1], "replay")) {
        FILE *fp = fopen(argv[2], "r");
        if (!fp) die("cannot open %s", argv[2]);
        plan p;
        if (!plan_read(&p, fp)) die("not a plan file: %s", argv[2]);
        fclose(fp);
        const engine *e = engine_by_name(p.engine);
        cur_seed = p.seed;
        printf("START %" PRIu64 "\n", p.seed);
        alarm(10);
        reset_run_state();
        e->run(&p);
        report(p.seed);
        report_counters();
        return 0;
    }
    die("bad arguments");
}
