/* eng_teardown.c - C10: the end of a trial as the tutorials write it.  Heap-allocated processes (cmb_process_create) that hold,
 * arm timers and wait for one another; at the closing time one event stops, terminates and destroys them one after the other,
 * in a planned order, while wake-ups that the earlier stops caused are still in the event queue.  Whatever the library still
 * remembers about a process that has been destroyed is a dangling pointer: the sanitizer build reports the use-after-free, the
 * release build may crash.  Oracle: the run ends normally (C10); nothing else is judged here.
 *
 * Plan lines:
 *   INIT n tend                    n processes (2..12), closing event at time code tend
 *   H i d                          process i: hold d, then return
 *   W i j d sig                    process i: optional timer (d > 0: due after d, signal code sig), wait for process j, then hold
 *   R i k                          process i: acquire resource k first (k in 0..1), keep it
 *   KILL i                         closing event: stop, terminate and destroy process i (in file order; the rest follows in index order)
 *   FT i t d sig                   an event at time code t arms a timer on process i from outside (due after d, signal code sig), whatever
 *                                  it is blocked in by then - the supervisor that gives a worker a deadline
 */
#include "core.h"
#include <stdlib.h>
#include <string.h>
#include "cimba.h"

#define TD_MAXP 12
typedef struct { int kind; int target; int64_t d, sig; int res; } tdscript;     /* kind 0: hold; 1: wait for target */
static const plan *P;
static int np;
static struct cmb_process *pp[TD_MAXP];
static tdscript sc[TD_MAXP];
static struct cmb_resource *res[2];
#define TD_MAXFT 8
static struct { int i; int64_t d, sig; } ft[TD_MAXFT];
static int nft;

static void *td_body(struct cmb_process *me, void *ctx)
{
    (void)me;
    const tdscript *s = ctx;
    if (s->res >= 0) (void)cmb_resource_acquire(res[s->res]);
    if (s->kind == 0) { (void)cmb_process_hold(dur_of(s->d)); return NULL; }
    if (s->d > 0) (void)cmb_process_timer_add(cmb_process_current(), dur_of(s->d), 7000 + s->sig);
    if (pp[s->target] != NULL && pp[s->target] != cmb_process_current()) (void)cmb_process_wait_process(pp[s->target]);
    (void)cmb_process_hold(100.0);
    return NULL;
}

static void td_kill(int i)
{
    if (i < 0 || i >= np || pp[i] == NULL) return;
    if (cmb_process_status(pp[i]) == CMB_PROCESS_RUNNING) cmb_process_stop(pp[i], NULL);
    cmb_process_terminate(pp[i]);
    cmb_process_destroy(pp[i]);
    pp[i] = NULL;
    g_stats.faults++;
    TR1("kill", i);
}

static void td_ft(void *s, void *o)
{
    (void)o;
    const int k = (int)(intptr_t)s;
    struct cmb_process *p = pp[ft[k].i];
    if (p == NULL || cmb_process_status(p) != CMB_PROCESS_RUNNING) return;
    (void)cmb_process_timer_add(p, dur_of(ft[k].d), 7100 + ft[k].sig);
    g_stats.faults++;
    TR2("ft", ft[k].i, ft[k].d);
}

static void td_end(void *s, void *o)
{
    (void)s; (void)o;
    for (int k = 0; k < P->n; k++) if (pis(&P->l[k], "KILL")) td_kill((int)((uint64_t)pa(&P->l[k], 0) % (uint64_t)np));
    for (int i = 0; i < np; i++) td_kill(i);
}

static void td_run(const plan *p)
{
    cmb_logger_flags_off(CMB_LOGGER_INFO | CMB_LOGGER_WARNING);
    P = p; np = 4; int64_t tend = 8;
    for (int k = 0; k < p->n; k++) if (pis(&p->l[k], "INIT")) { np = 2 + (int)((uint64_t)pa(&p->l[k], 0) % (TD_MAXP - 1)); tend = pa(&p->l[k], 1); break; }
    cmb_event_queue_initialize(0.0);
    for (int k = 0; k < 2; k++) { res[k] = cmb_resource_create(); cmb_resource_initialize(res[k], k ? "r1" : "r0"); }
    for (int i = 0; i < np; i++) { sc[i].kind = 0; sc[i].target = 0; sc[i].d = 4 + i; sc[i].sig = i; sc[i].res = -1; }
    for (int k = 0; k < p->n; k++) {
        const pline *l = &p->l[k];
        const int i = (int)((uint64_t)pa(l, 0) % (uint64_t)np);
        if (pis(l, "H")) { sc[i].kind = 0; sc[i].d = pa(l, 1) < 0 ? 0 : pa(l, 1) % 24; }
        else if (pis(l, "W")) { sc[i].kind = 1; sc[i].target = (int)((uint64_t)pa(l, 1) % (uint64_t)np); sc[i].d = pa(l, 2) < 0 ? 0 : pa(l, 2) % 24; sc[i].sig = pa(l, 3) % 100; }
        else if (pis(l, "R")) sc[i].res = (int)((uint64_t)pa(l, 1) % 2);
    }
    nft = 0;
    for (int i = 0; i < np; i++) {
        char nm[16]; snprintf(nm, sizeof nm, "T%d", i);
        pp[i] = cmb_process_create();
        cmb_process_initialize(pp[i], nm, td_body, &sc[i], (int64_t)(i % 3));
        cmb_process_start(pp[i]);
    }
    for (int k = 0; k < p->n && nft < TD_MAXFT; k++) {
        const pline *l = &p->l[k];
        if (!pis(l, "FT")) continue;
        ft[nft].i = (int)((uint64_t)pa(l, 0) % (uint64_t)np);
        ft[nft].d = pa(l, 2) <= 0 ? 1 : pa(l, 2) % 24;
        ft[nft].sig = pa(l, 3) % 100;
        (void)cmb_event_schedule(td_ft, (void *)(intptr_t)nft, NULL, dur_of(pa(l, 1) < 0 ? 0 : pa(l, 1) % 24), (pa(l, 3) & 1) ? 20 : -5);
        nft++;
    }
    (void)cmb_event_schedule(td_end, NULL, NULL, dur_of(tend <= 0 ? 4 : tend % 24 ? tend % 24 : 4), 10);
    uint64_t n = 0;
    while (cmb_event_execute_next()) { if (++n > 4000) break; }
    g_stats.events = n; g_stats.simtime = cmb_time();
    for (int i = 0; i < np; i++) td_kill(i);
    for (int k = 0; k < 2; k++) cmb_resource_destroy(res[k]);
    cmb_event_queue_terminate();
    TR2("done", np, n);
    g_stats.nontrivial = g_stats.faults >= 2;
}

static void td_gen(plan *p, uint64_t seed, const char *cfg)
{
    (void)cfg;
    vrng r; vrng_seed(&r, seed);
    const int n = 2 + (int)vrng_below(&r, TD_MAXP - 1);
    /* the closing time is one of the few instants at which the scripts do things, so that holds end, timers fire and processes
     * end in the very instant of the closing event */
    static const int64_t grid[] = { 0, 4, 4, 8, 8, 8, 12 };
    plan_add(p, "INIT", 2, (int64_t)(n - 2), grid[1 + vrng_below(&r, 6)]);       /* after t = 0: every process has started (destroying one whose start event is pending is not claimed to be valid) */
    for (int i = 0; i < n; i++) {
        if (vrng_chance(&r, 1, 2)) plan_add(p, "W", 4, (int64_t)i, (int64_t)vrng_below(&r, (uint64_t)n), vrng_chance(&r, 1, 2) ? (int64_t)0 : grid[vrng_below(&r, 7)], (int64_t)vrng_below(&r, 100));
        else plan_add(p, "H", 2, (int64_t)i, grid[vrng_below(&r, 7)]);
        if (vrng_chance(&r, 1, 4)) plan_add(p, "R", 2, (int64_t)i, (int64_t)vrng_below(&r, 2));
    }
    const int nf = vrng_chance(&r, 1, 2) ? (int)vrng_below(&r, 4) : 0;
    for (int k = 0; k < nf; k++) plan_add(p, "FT", 4, (int64_t)vrng_below(&r, (uint64_t)n), grid[vrng_below(&r, 7)], grid[1 + vrng_below(&r, 6)], (int64_t)vrng_below(&r, 100));
    const int nk = (int)vrng_below(&r, (uint64_t)n + 1);
    for (int k = 0; k < nk; k++) plan_add(p, "KILL", 1, (int64_t)vrng_below(&r, (uint64_t)n));
}

const engine eng_teardown = {
    .name = "teardown", .props = "C10", .gen = td_gen, .run = td_run,
    .rule = "runs in which the closing event destroyed at least two processes",
};
