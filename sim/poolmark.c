/* poolmark.c - the harness side of the two hooks in /repo/src/cmi_mempool.h (-DCIMBA_VERIF): the contents of an object that sits
 * in one of the library's tag pools are dead.  Whatever the library reads from such an object it reads after having released it
 * (C10: use after free at the level of the library's own allocator), and whatever it reads from an object it has just been handed
 * without having written it first is uninitialised.  The first eight bytes belong to the pool (its free-list link).
 *   sanitizer build: the rest of a released object is poisoned (ASan reports the read or write as use-after-poison);
 *   every build:     a released object is overwritten with 0xDD, a handed-out object with 0xCD, so that a stale or uninitialised
 *                    pointer is never a plausible one and a stale value is never the right one.
 * POOLMARK=0 in the environment switches the marking off (to tell what it found from what was there before). */
#include <stdlib.h>
#include <string.h>
#include <stddef.h>
#if defined(__has_feature)
#  if __has_feature(address_sanitizer)
#    define PM_ASAN 1
#  endif
#endif
#if defined(__SANITIZE_ADDRESS__)
#  define PM_ASAN 1
#endif
#ifdef PM_ASAN
#  include <sanitizer/asan_interface.h>
#endif

static int pm_state = -1;
static inline int pm_on(void)
{
    if (pm_state < 0) { const char *e = getenv("POOLMARK"); pm_state = (e && e[0] == '0') ? 0 : 1; }
    return pm_state;
}

#ifdef PM_ASAN
/* Only what this file poisoned may be unpoisoned: an object the pool hands out that was never released through the hook - e.g.
 * one that a broken pool conjures up beyond the end of its chunk - keeps whatever protection ASan gave that memory (the heap red
 * zone).  A released object is recognised by the stamp the release left in it, read here without instrumentation. */
__attribute__((no_sanitize("address"))) static int pm_stamped(const unsigned char *p, size_t n)
{
    for (size_t i = 0; i < n; i++) if (p[i] != 0xDD) return 0;
    return 1;
}
#endif

void cmi_verif_mempool_alloc(void *op, size_t obj_sz)
{
    if (!pm_on()) return;
#ifdef PM_ASAN
    if (obj_sz > sizeof(void *) && pm_stamped((const unsigned char *)op + sizeof(void *), obj_sz - sizeof(void *)))
        ASAN_UNPOISON_MEMORY_REGION((char *)op + sizeof(void *), obj_sz - sizeof(void *));
#endif
    memset(op, 0xCD, obj_sz);      /* under ASan an intercepted call: an object that is not all inside its chunk is reported here */
}

void cmi_verif_mempool_free(void *op, size_t obj_sz)
{
    if (!pm_on() || obj_sz <= sizeof(void *)) return;
    memset((char *)op + sizeof(void *), 0xDD, obj_sz - sizeof(void *));
#ifdef PM_ASAN
    ASAN_POISON_MEMORY_REGION((char *)op + sizeof(void *), obj_sz - sizeof(void *));
#endif
}
