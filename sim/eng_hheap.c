/* eng_hheap.c - C02: cmi_hashheap against a map + order model, with structural checks.
 *
 * Plan lines:
 *   INIT exp cmp          exp 1..6, cmp 0 default, 1 waiting-list, 2 pool-holder, 3 object-priority
 *   ENQ ksel d i a b dd   ksel 0: automatic key; ksel>0: caller key palette[ksel]; skipped if live
 *   DEQ | PEEK | CLEAR | RESET
 *   REM sel | ISENQ sel | ITEM sel | KEYS sel | REPRIO sel d i      sel indexes keys ever used (mod)
 *   PFIND a b c d | PCOUNT a b c d | PCANCEL a b c d                 -1 = wildcard, c: unique id or -1
 */
#include "core.h"
#include <stdlib.h>
#include <string.h>
#include "cmi_hashheap.h"
#include "cmb_resourceguard.h"
#include "cmb_resourcepool.h"
#include "cmb_priorityqueue.h"
#include "cmb_logger.h"

#define MAXLIVE 1100
#define MAXKEYS 6000
#define NPAL 16

typedef struct { uint64_t key; void *pay[4]; double d; int64_t i; } ment;
static ment live[MAXLIVE];
static int nlive;
static uint64_t keys_used[MAXKEYS];
static int nkeys;
static uint64_t pal[NPAL];
static struct cmi_hashheap *hp;
static cmi_heap_compare_func *cmp;
static int cmpkind;
static uint64_t uniq;

static const uint64_t PHI = UINT64_C(11400714819323198485);

static void *pv(int64_t code) { return code < 0 ? CMI_ANY_ITEM : (void *)(uintptr_t)(0x2000 + 8 * code); }

static int find_live(uint64_t key) { for (int i = 0; i < nlive; i++) if (live[i].key == key) return i; return -1; }
static void note_key(uint64_t key) { if (nkeys < MAXKEYS) keys_used[nkeys++] = key; }
static struct cmi_heap_tag tag_of(const ment *m)
{
    struct cmi_heap_tag t; memset(&t, 0, sizeof t);
    t.key = m->key; t.dsortkey = m->d; t.isortkey = m->i;
    for (int k = 0; k < 4; k++) t.item[k] = m->pay[k];
    return t;
}
static bool before(const ment *a, const ment *b)
{
    const struct cmi_heap_tag ta = tag_of(a), tb = tag_of(b);
    return (*cmp)(&ta, &tb);
}
/* documented default order, judged independently of the library's function */
static bool before_spec(const ment *a, const ment *b) { return a->d < b->d; }

static void structural(const char *where)
{
    if (hp->heap == NULL) { if (nlive) viol("C02", "struct-null", "%s: heap NULL with %d live", where, nlive); return; }
    if (hp->heap_count != (uint64_t)nlive) {
        viol("C02", "count", "%s: count %" PRIu64 " model %d", where, hp->heap_count, nlive);
        return;
    }
    if (hp->heap_size != (UINT64_C(1) << hp->heap_exp_cur) || hp->hash_size != 2 * hp->heap_size || hp->heap_count > hp->heap_size)
        viol("C02", "struct-size", "%s: size fields inconsistent (exp %u heap %" PRIu64 " hash %" PRIu64 " count %" PRIu64 ")",
             where, hp->heap_exp_cur, hp->heap_size, hp->hash_size, hp->heap_count);
    for (uint64_t i = 1; i <= hp->heap_count; i++) {
        const struct cmi_heap_tag *t = &hp->heap[i];
        if (i >= 2 && (*cmp)(t, &hp->heap[i / 2])) {
            viol("C02", "struct-heap-order", "%s: child %" PRIu64 " (key %" PRIu64 ") goes before its parent", where, i, t->key);
            break;
        }
        if (t->hash_index >= hp->hash_size || hp->hash_map[t->hash_index].key != t->key
            || hp->hash_map[t->hash_index].heap_index != i) {
            viol("C02", "struct-hash-backpointer", "%s: heap[%" PRIu64 "] key %" PRIu64 " hash back-pointer wrong", where, i, t->key);
            break;
        }
        const int m = find_live(t->key);
        if (m < 0) { viol("C02", "struct-unknown-key", "%s: heap holds key %" PRIu64 " the model does not", where, t->key); break; }
        if (memcmp(t->item, live[m].pay, sizeof t->item) != 0 || t->dsortkey != live[m].d || t->isortkey != live[m].i) {
            viol("C02", "payload-detached", "%s: key %" PRIu64 " carries another entry's payload or sort keys", where, t->key);
            break;
        }
    }
    uint64_t lv = 0;
    for (uint64_t h = 0; h < hp->hash_size; h++) if (hp->hash_map[h].heap_index != 0) lv++;
    if (lv != hp->heap_count) viol("C02", "struct-hash-live", "%s: %" PRIu64 " live hash entries for %" PRIu64 " items", where, lv, hp->heap_count);
    for (int m = 0; m < nlive; m++) {
        const uint64_t idx = cmi_hash_find_index(hp, live[m].key);
        if (idx == 0 || idx > hp->heap_count || hp->heap[idx].key != live[m].key) {
            viol("C02", "lookup-live", "%s: live key %" PRIu64 " not found by lookup", where, live[m].key);
            break;
        }
    }
}

static void check_min(const char *what, int got)
{
    for (int j = 0; j < nlive; j++) {
        if (j == got) continue;
        if (before(&live[j], &live[got])) {
            viol("C02", "not-minimum", "%s returned key %" PRIu64 " (d=%g i=%" PRId64 ") although key %" PRIu64 " (d=%g i=%" PRId64 ") goes before it",
                 what, live[got].key, live[got].d, live[got].i, live[j].key, live[j].d, live[j].i);
            return;
        }
        if (cmpkind == 0 && before_spec(&live[j], &live[got])) {
            viol("C02", "not-minimum-default", "%s: default order should be increasing dsortkey", what);
            return;
        }
    }
}

static bool pmatch(const ment *m, int64_t a, int64_t b, int64_t c, int64_t d)
{
    return (a < 0 || m->pay[0] == pv(a)) && (b < 0 || m->pay[1] == pv(b)) && (c < 0 || m->pay[2] == pv(c))
           && (d < 0 || m->pay[3] == pv(d));
}

static void hh_run(const plan *p)
{
    cmb_logger_flags_off(CMB_LOGGER_INFO | CMB_LOGGER_WARNING);
    nlive = 0; nkeys = 0; uniq = 100;
    int exp0 = 3; cmpkind = 0;
    for (int i = 0; i < p->n; i++) if (pis(&p->l[i], "INIT")) { exp0 = (int)(1 + ((uint64_t)pa(&p->l[i], 0)) % 6); cmpkind = (int)(((uint64_t)pa(&p->l[i], 1)) % 4); break; }
    /* comparators are taken from the public heap_compare field of freshly initialised objects */
    struct cmb_resourcepool *pool = NULL; struct cmb_priorityqueue *pq = NULL;
    cmi_heap_compare_func *c = NULL;
    if (cmpkind == 1 || cmpkind == 2) {
        pool = cmb_resourcepool_create(); cmb_resourcepool_initialize(pool, "p", 4);
        c = (cmpkind == 1) ? pool->guard.priority_queue.heap_compare : pool->holders.heap_compare;
    } else if (cmpkind == 3) {
        pq = cmb_priorityqueue_create(); cmb_priorityqueue_initialize(pq, "q", 4);
        c = pq->queue.heap_compare;
    }
    hp = cmi_hashheap_create();
    cmi_hashheap_initialize(hp, (uint16_t)exp0, c);
    cmp = hp->heap_compare;
    /* caller keys >= 2^40 that collide in the Fibonacci hash for every exponent <= 8, in two groups */
    {
        int n = 0; uint64_t k = (UINT64_C(1) << 40) + 12345;
        const uint64_t t0 = ((k * PHI) >> 55);
        while (n < NPAL / 2) { if (((k * PHI) >> 55) == t0) pal[n++] = k; k += 8; }
        const uint64_t t1 = t0 ^ 1;   /* neighbouring slot: probe chains overlap */
        while (n < NPAL) { if (((k * PHI) >> 55) == t1) pal[n++] = k; k += 8; }
    }
    bool grew = false, collided = false, reinserted = false;
    uint64_t steps = 0;
    for (int li = 0; li < p->n; li++) {
        const pline *l = &p->l[li];
        if (pis(l, "INIT")) continue;
        steps++;
        const uint64_t sel = (uint64_t)pa(l, 0);
        if (pis(l, "ENQ")) {
            if (nlive >= MAXLIVE - 1) continue;
            uint64_t key = 0;
            if (sel > 0 && sel <= 1000) { key = pal[sel % NPAL]; if (find_live(key) >= 0) continue; }
            else if (sel > 1000) { key = 1 + (sel % 48); if (find_live(key) >= 0) continue; PROBE("hh.small_caller_key"); }   /* caller keys in the range the automatic keys run through */
            ment m; memset(&m, 0, sizeof m);
            m.d = (double)(pa(l, 1) % 5) / 2.0; m.i = prio_of(pa(l, 2));
            m.pay[0] = pv(pa(l, 3) < 0 ? 0 : pa(l, 3) % 3); m.pay[1] = pv(pa(l, 4) < 0 ? 0 : pa(l, 4) % 3);
            m.pay[2] = pv((int64_t)(uniq++)); m.pay[3] = pv(pa(l, 5) < 0 ? 0 : pa(l, 5) % 2);
            if (cmpkind == 2) m.d = 0.0;
            const uint16_t e0 = hp->heap_exp_cur;
            const uint64_t r = cmi_hashheap_enqueue(hp, m.pay[0], m.pay[1], m.pay[2], m.pay[3], key, m.d, m.i);
            if (hp->heap_exp_cur != e0) { grew = true; PROBE("hh.grow"); }
            if (key != 0 && r != key) viol("C02", "enqueue-key", "enqueue with caller key %" PRIu64 " returned %" PRIu64, key, r);
            if (r == 0) { viol("C02", "enqueue-zero", "enqueue returned key 0"); continue; }
            if (find_live(r) >= 0) { viol("C02", "enqueue-dup", "enqueue returned key %" PRIu64 " which is live", r); continue; }
            if (key != 0) { for (int k = 0; k < nkeys; k++) if (keys_used[k] == key) { reinserted = true; PROBE("hh.reinsert_after_removal"); break; }
                            for (int k = 0; k < nlive; k++) if (live[k].key >= (UINT64_C(1) << 40)) { collided = true; PROBE("hh.colliding_keys_live"); break; } }
            m.key = r; live[nlive++] = m; note_key(r);
            TR3("enq", r, dbits(m.d), m.i);
        } else if (pis(l, "DEQ") || pis(l, "PEEK")) {
            const bool deq = pis(l, "DEQ");
            void **it = deq ? cmi_hashheap_dequeue(hp) : cmi_hashheap_peek_item(hp);
            if (nlive == 0) { if (it != NULL) viol("C02", "empty-nonnull", "%s on empty heap returned non-NULL", l->op); continue; }
            if (it == NULL) { viol("C02", "nonempty-null", "%s returned NULL with %d live", l->op, nlive); continue; }
            int got = -1;
            for (int k = 0; k < nlive; k++) if (live[k].pay[2] == it[2]) got = k;
            if (got < 0 || memcmp(it, live[got].pay, 4 * sizeof(void *)) != 0) { viol("C02", "payload-detached", "%s returned a payload no live entry has", l->op); continue; }
            check_min(l->op, got);
            if (!deq) {
                if (cmi_hashheap_peek_dkey(hp) != live[got].d || cmi_hashheap_peek_ikey(hp) != live[got].i)
                    viol("C02", "peek-keys", "peek_dkey/ikey disagree with the peeked item");
            }
            TR2(deq ? "deq" : "peek", live[got].key, nlive);
            if (deq) live[got] = live[--nlive];
        } else if (pis(l, "CLEAR")) {
            cmi_hashheap_clear(hp); nlive = 0; TR0("clear");
        } else if (pis(l, "RESET")) {
            cmi_hashheap_reset(hp); nlive = 0; TR0("reset");
            if (hp->heap_exp_cur != exp0) viol("C02", "reset-size", "reset did not return to the initial size");
        } else if (pis(l, "PFIND") || pis(l, "PCOUNT") || pis(l, "PCANCEL")) {
            const int64_t a = pa(l, 0) < 0 ? -1 : pa(l, 0) % 3, b = pa(l, 1) < 0 ? -1 : pa(l, 1) % 3,
                          cc = pa(l, 2) < 0 ? -1 : 100 + pa(l, 2) % (int64_t)(uniq - 99), d = pa(l, 3) < 0 ? -1 : pa(l, 3) % 2;
            int m = 0; for (int k = 0; k < nlive; k++) m += pmatch(&live[k], a, b, cc, d);
            if (pis(l, "PFIND")) {
                const uint64_t r = cmi_hashheap_pattern_find(hp, pv(a), pv(b), pv(cc), pv(d));
                const int g = r ? find_live(r) : -1;
                if ((m == 0) != (r == 0) || (r != 0 && (g < 0 || !pmatch(&live[g], a, b, cc, d))))
                    viol("C02", "pattern-find", "pattern_find returned %" PRIu64 " with %d matches", r, m);
            } else if (pis(l, "PCOUNT")) {
                const uint64_t r = cmi_hashheap_pattern_count(hp, pv(a), pv(b), pv(cc), pv(d));
                if (r != (uint64_t)m) viol("C02", "pattern-count", "pattern_count %" PRIu64 " model %d", r, m);
            } else {
                const uint64_t r = cmi_hashheap_pattern_cancel(hp, pv(a), pv(b), pv(cc), pv(d));
                if (r != (uint64_t)m) viol("C02", "pattern-cancel", "pattern_cancel %" PRIu64 " model %d", r, m);
                for (int k = 0; k < nlive; ) { if (pmatch(&live[k], a, b, cc, d)) live[k] = live[--nlive]; else k++; }
            }
            TR2(l->op, m, nlive);
        } else if (nkeys > 0) {
            const uint64_t key = keys_used[sel % (uint64_t)nkeys];
            const int g = find_live(key);
            if (pis(l, "REM")) {
                const bool r = cmi_hashheap_remove(hp, key);
                if (r != (g >= 0)) viol("C02", "remove-retval", "remove(%" PRIu64 ") returned %d, live=%d", key, r, g >= 0);
                if (g >= 0) live[g] = live[--nlive];
                TR2("rem", key, r);
            } else if (pis(l, "ISENQ")) {
                const bool r = cmi_hashheap_is_enqueued(hp, key);
                if (r != (g >= 0)) viol("C02", "is-enqueued", "is_enqueued(%" PRIu64 ")=%d live=%d", key, r, g >= 0);
            } else if (pis(l, "ITEM") && g >= 0) {
                void **it = cmi_hashheap_item(hp, key);
                if (it == NULL || memcmp(it, live[g].pay, 4 * sizeof(void *)) != 0)
                    viol("C02", "payload-detached", "item(%" PRIu64 ") is not the payload enqueued with that key", key);
            } else if (pis(l, "KEYS") && g >= 0) {
                if (cmi_hashheap_dkey(hp, key) != live[g].d || cmi_hashheap_ikey(hp, key) != live[g].i)
                    viol("C02", "sortkeys", "dkey/ikey(%" PRIu64 ") differ from the model", key);
            } else if (pis(l, "REPRIO") && g >= 0) {
                live[g].d = (cmpkind == 2) ? 0.0 : (double)(pa(l, 1) % 5) / 2.0; live[g].i = prio_of(pa(l, 2));
                cmi_hashheap_reprioritize(hp, key, live[g].d, live[g].i);
                TR3("reprio", key, dbits(live[g].d), live[g].i);
            }
        }
        if (cmi_hashheap_count(hp) != (uint64_t)nlive || cmi_hashheap_is_empty(hp) != (nlive == 0))
            viol("C02", "count", "after %s: count %" PRIu64 " / is_empty %d, model %d", l->op, cmi_hashheap_count(hp), cmi_hashheap_is_empty(hp), nlive);
        structural(l->op);
        if (g_nviol) break;
    }
    /* drain: everything comes out, in a non-decreasing order under the comparator */
    if (!g_nviol) {
        while (nlive > 0) {
            void **it = cmi_hashheap_dequeue(hp);
            if (!it) { viol("C02", "nonempty-null", "drain: dequeue returned NULL with %d live", nlive); break; }
            int got = -1;
            for (int k = 0; k < nlive; k++) if (live[k].pay[2] == it[2]) got = k;
            if (got < 0) { viol("C02", "payload-detached", "drain: unknown payload"); break; }
            check_min("drain", got);
            live[got] = live[--nlive];
            if (g_nviol) break;
        }
        if (!g_nviol && cmi_hashheap_dequeue(hp) != NULL) viol("C02", "empty-nonnull", "drain: heap not empty at the end");
    }
    g_stats.events = steps;
    g_stats.nontrivial = grew || collided || reinserted;
    cmi_hashheap_destroy(hp);
    if (pool) cmb_resourcepool_destroy(pool);
    if (pq) cmb_priorityqueue_destroy(pq);
}

static void hh_gen(plan *p, uint64_t seed, const char *cfg)
{
    vrng r; vrng_seed(&r, seed);
    int cmpk = (int)vrng_below(&r, 4);
    const char *c = strstr(cfg, "cmp=");
    if (c) cmpk = atoi(c + 4);
    plan_add(p, "INIT", 2, (int64_t)vrng_below(&r, 5), (int64_t)cmpk);
    const int n = 10 + (int)vrng_below(&r, vrng_chance(&r, 1, 8) ? 590 : 120);
    const int keymode = (int)vrng_below(&r, 3);     /* 0 auto only, 1 caller only, 2 mixed */
    const int pmode = (int)vrng_below(&r, 3);
    const unsigned enq_w = 30 + (unsigned)vrng_below(&r, 40);
    int used = 1;
    for (int i = 0; i < n; i++) {
        const unsigned k = (unsigned)vrng_below(&r, 100 + enq_w);
        const int64_t sel = (int64_t)vrng_below(&r, (uint64_t)used + 1);
        const int64_t pr = pmode == 0 ? 0 : pmode == 1 ? vrng_range(&r, -1, 2)
                          : (int64_t[]){ 0, 1, -1, 1000001, -1000001, 1000002 }[vrng_below(&r, 6)];
        if (k < enq_w + 20) {
            int64_t ks = 0;
            if (keymode == 1 || (keymode == 2 && vrng_chance(&r, 1, 2))) ks = 1 + (int64_t)vrng_below(&r, NPAL);
            if (keymode == 2 && ks != 0 && vrng_chance(&r, 1, 3)) ks = 1001 + (int64_t)vrng_below(&r, 48);
            plan_add(p, "ENQ", 6, ks, (int64_t)vrng_below(&r, 5), pr, (int64_t)vrng_below(&r, 3), (int64_t)vrng_below(&r, 3), (int64_t)vrng_below(&r, 2));
            used++;
        }
        else if (k < enq_w + 38) plan_add(p, "DEQ", 0);
        else if (k < enq_w + 44) plan_add(p, "PEEK", 0);
        else if (k < enq_w + 58) plan_add(p, "REM", 1, sel);
        else if (k < enq_w + 72) plan_add(p, "REPRIO", 3, sel, (int64_t)vrng_below(&r, 5), pr);
        else if (k < enq_w + 78) plan_add(p, "ISENQ", 1, sel);
        else if (k < enq_w + 83) plan_add(p, "ITEM", 1, sel);
        else if (k < enq_w + 87) plan_add(p, "KEYS", 1, sel);
        else if (k < enq_w + 91) plan_add(p, "PFIND", 4, vrng_range(&r, -1, 2), vrng_range(&r, -1, 2), vrng_chance(&r, 3, 4) ? (int64_t)-1 : sel, vrng_range(&r, -1, 1));
        else if (k < enq_w + 95) plan_add(p, "PCOUNT", 4, vrng_range(&r, -1, 2), vrng_range(&r, -1, 2), vrng_chance(&r, 3, 4) ? (int64_t)-1 : sel, vrng_range(&r, -1, 1));
        else if (k < enq_w + 98) plan_add(p, "PCANCEL", 4, vrng_range(&r, -1, 2), vrng_range(&r, 0, 2), vrng_chance(&r, 3, 4) ? (int64_t)-1 : sel, vrng_range(&r, -1, 1));
        else if (k < enq_w + 99) plan_add(p, "CLEAR", 0);
        else plan_add(p, "RESET", 0);
    }
}

const engine eng_hheap = {
    .name = "hheap", .props = "C02", .gen = hh_gen, .run = hh_run,
    .rule = "histories that crossed a capacity doubling, had colliding caller keys live together, or re-inserted a removed key",
};
