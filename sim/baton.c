#include "baton.h"
#include "core.h"
#include <pthread.h>
#include <string.h>

int __real_pthread_create(pthread_t *, const pthread_attr_t *, void *(*)(void *), void *);
int __real_pthread_join(pthread_t, void **);
uint32_t __real_cmi_cpu_cores(void);

typedef struct {
    pthread_t tid;
    void *(*fn)(void *);
    void *arg;
    void *ret;
    bool finished, joined;
} bthread;

static pthread_mutex_t mu = PTHREAD_MUTEX_INITIALIZER;
static pthread_cond_t cv = PTHREAD_COND_INITIALIZER;
static bthread th[BATON_MAX];
static int nth;
static int turn;                 /* -1 coordinator, else thread index */
static bool active;
static vrng srng;
static int switch_pct_;
static uint64_t nswitch;
static uint32_t cores_override;
static __thread int self_idx = -1;
static int last_pick = -1;

bool baton_active(void) { return active; }
int baton_self(void) { return self_idx; }
uint64_t baton_switches(void) { return nswitch; }
int baton_nthreads(void) { return nth; }
void baton_set_cores(uint32_t n) { cores_override = n; }

void baton_begin(uint64_t sched_seed, int switch_pct)
{
    vrng_seed(&srng, sched_seed);
    memset(th, 0, sizeof th);
    nth = 0; turn = -1; nswitch = 0; switch_pct_ = switch_pct; active = true; last_pick = -1;
}
void baton_end(void) { active = false; cores_override = 0; }

static void wait_turn(int me)
{
    while (turn != me) pthread_cond_wait(&cv, &mu);
}

static void tramp_done(void *vp)
{
    const int me = (int)(intptr_t)vp;
    pthread_mutex_lock(&mu);
    th[me].finished = true;
    turn = -1;
    pthread_cond_broadcast(&cv);
    pthread_mutex_unlock(&mu);
}

static void *trampoline(void *vp)
{
    const int me = (int)(intptr_t)vp;
    self_idx = me;
    pthread_mutex_lock(&mu);
    wait_turn(me);
    pthread_mutex_unlock(&mu);
    /* the thread may also end through pthread_exit (cmb_logger_error does that): hand the baton back in a clean-up handler */
    void *r = NULL;
    pthread_cleanup_push(tramp_done, vp);
    r = th[me].fn(th[me].arg);
    th[me].ret = r;
    pthread_cleanup_pop(1);
    return r;
}

int baton_spawn(void *(*fn)(void *), void *arg)
{
    if (nth >= BATON_MAX) die("baton: too many threads");
    const int me = nth++;
    th[me].fn = fn; th[me].arg = arg;
    if (__real_pthread_create(&th[me].tid, NULL, trampoline, (void *)(intptr_t)me) != 0) die("pthread_create failed");
    return me;
}

void baton_yield(void)
{
    if (!active || self_idx < 0) return;
    const int me = self_idx;
    pthread_mutex_lock(&mu);
    turn = -1;
    pthread_cond_broadcast(&cv);
    wait_turn(me);
    pthread_mutex_unlock(&mu);
}

static void schedule_until(int target)     /* target >= 0: until that thread has finished; -1: until all have */
{
    int last = last_pick;
    pthread_mutex_lock(&mu);
    for (;;) {
        int run[BATON_MAX], n = 0;
        for (int i = 0; i < nth; i++) if (!th[i].finished) run[n++] = i;
        if (n == 0) break;
        if (target >= 0 && th[target].finished) break;
        int pick;
        bool last_ok = false;
        for (int i = 0; i < n; i++) if (run[i] == last) last_ok = true;
        if (last_ok && (int)vrng_below(&srng, 100) >= switch_pct_) pick = last;
        else pick = run[vrng_below(&srng, (uint64_t)n)];
        if (pick != last) nswitch++;
        last = pick;
        TR1("baton", pick);
        turn = pick;
        pthread_cond_broadcast(&cv);
        while (turn != -1) pthread_cond_wait(&cv, &mu);
    }
    last_pick = last;
    pthread_mutex_unlock(&mu);
}

void baton_run_all(void)
{
    schedule_until(-1);
    for (int i = 0; i < nth; i++) if (!th[i].joined) { __real_pthread_join(th[i].tid, NULL); th[i].joined = true; }
}

/* ---- link-time seams ---- */
int __wrap_pthread_create(pthread_t *t, const pthread_attr_t *a, void *(*f)(void *), void *arg)
{
    if (!active) return __real_pthread_create(t, a, f, arg);
    const int me = baton_spawn(f, arg);
    *t = th[me].tid;
    return 0;
}
int __wrap_pthread_join(pthread_t t, void **r)
{
    if (!active) return __real_pthread_join(t, r);
    /* the caller becomes the coordinator until the thread it asks for has finished */
    for (int i = 0; i < nth; i++) {
        if (pthread_equal(th[i].tid, t) && !th[i].joined) {
            schedule_until(i);
            th[i].joined = true;
            if (r) *r = th[i].ret;
            return __real_pthread_join(t, NULL);
        }
    }
    return __real_pthread_join(t, r);
}
uint32_t __wrap_cmi_cpu_cores(void)
{
    return cores_override ? cores_override : __real_cmi_cpu_cores();
}
