/* procs.h - world interpreter for C04..C14: processes, guard-based objects, faults, monitors */
#ifndef VERIF_PROCS_H
#define VERIF_PROCS_H
#include "core.h"
#include "cimba.h"
#include "cmb_priorityqueue.h"
#include "cmi_process.h"

#define MAXP     40
#define MAXSTEPS 32
#define MAXRES   3
#define MAXPOOL  2
#define MAXBUF   2
#define MAXOQ    2
#define MAXPQ    2
#define MAXCOND  2
#define MAXHEV   8
#define MAXVAR   4
#define MAXCAUSE 96
#define MAXFAULT 48
#define MAXTIMERS 24
#define MAXQ     64          /* model queue length cap */

enum { OP_NONE = 0, OP_HOLD, OP_YIELD, OP_WAITP, OP_WAITE, OP_ACQ, OP_PRE, OP_PACQ, OP_PPRE,
       OP_BPUT, OP_BGET, OP_QPUT, OP_QGET, OP_KPUT, OP_KGET, OP_CWAIT, OP_WAITT, OP_NOPS };
extern const char *const opname[OP_NOPS];

/* guard classes */
enum { GC_RES = 0, GC_POOL, GC_BUF_FRONT, GC_BUF_REAR, GC_OQ_FRONT, GC_OQ_REAR, GC_PQ_FRONT, GC_PQ_REAR, GC_COND };
#define MAXGUARD (MAXRES + MAXPOOL + 2 * MAXBUF + 2 * MAXOQ + 2 * MAXPQ + MAXCOND)
typedef struct { struct cmb_resourceguard *g; int cls; int idx; } guardref;

enum { CK_HOLD = 1, CK_TIMER, CK_INTR, CK_RESUME, CK_PREEMPT, CK_GCANCEL, CK_PEND, CK_EV };
enum { CS_ARMED = 1, CS_MAYBE, CS_DEAD, CS_DELIVERED };
typedef struct {
    int kind, state;
    int64_t value;
    double due;
    uint64_t callseq;        /* CK_HOLD: the call it belongs to */
    int ref;                 /* CK_PEND: awaited process; CK_EV: event; CK_PREEMPT: object */
    uint64_t handle;         /* CK_TIMER */
    bool must;               /* must be delivered by the end of instant `due` */
    uint64_t born_seq;
} cause;

enum { END_NONE = 0, END_RETURN, END_EXIT, END_STOP, END_STOPSELF };

typedef struct proc {
    struct cmb_process *pp;
    int id, slot;
    int64_t prio0;
    const pline *steps[MAXSTEPS];
    int stepidx[MAXSTEPS];       /* plan line index, for attached faults */
    int nsteps, pc;
    int gen;                     /* incarnation */
    bool created, started, finished, start_pending;
    int endkind; void *exitv; double end_time; uint64_t end_seq;
    int ended_in_op;             /* the call it was suspended in when it ended (OP_NONE: it was running) */
    double late_resume_t; uint64_t late_resume_n;       /* resumes the harness sent to it after a stop in its yield, at time late_resume_t */
    int64_t late_sig[4];                                 /* their signal values (the first four) */
    /* in-flight call */
    int op; double call_t; uint64_t callseq; int obj; int64_t arg; int call_step;
    double hold_due;
    uint64_t pool_at_call; bool victim_in_call;
    uint64_t bufvar; uint64_t buf_req; uint64_t buf_booked;   /* C11: harness-owned amount variable */
    void *objloc;                /* C12: get destination */
    uint64_t kput_handle;
    uint64_t waitt_handle;       /* OP_WAITT: the awaited event is a timer of process obj */
    bool cond_true_seen;         /* C13: a true evaluation since CALL at this instant */
    bool cond_seen_false;        /* C13: the predicate has been false at some point since CALL */
    double cond_true_time;
    void *predctx;
    /* causes */
    cause cs[MAXCAUSE]; int ncs;
    uint64_t timer_handle[MAXTIMERS]; int timer_cause[MAXTIMERS]; int ntimers;
    /* beliefs */
    bool holds_res[MAXRES];
    uint64_t pool_held[MAXPOOL];
    uint64_t last_nonzero_ret_seq;   /* event seq of the last non-success return (for narrow relaxations) */
    uint64_t last_preempted_ret_seq; /* event seq of the last return with the preempted code */
    double last_signal_time;
    bool ran_this_event, named_this_event, prio_touched_this_event;
    uint32_t prio_changes;       /* how often its priority was set in this run */
    uint64_t call_evseq; uint64_t rel_evseq[MAXRES];
} proc;

typedef struct { uint64_t handle; bool pending, executed, cancelled, subj_is_proc; double time; double done_time; int64_t prio; } hevent;
void hev_check_vanished(int e);

typedef struct { int kind; int a; int64_t b; int cond; } predspec;   /* C13 predicate */
enum { PR_FALSE = 0, PR_VAR_GE, PR_RES_FREE, PR_POOL_AVAIL_GE, PR_BUF_LEVEL_GE, PR_TRUE, PR_OQ_LEN_GE, PR_BUF_SPACE_GE, PR_NKINDS };

typedef struct { void *v; int64_t prio; uint64_t handle; uint64_t seq; } qitem;

typedef struct {
    /* configuration */
    int np, nres, npool, nbuf, noq, npq, ncond;
    uint64_t poolcap[MAXPOOL], bufcap[MAXBUF], oqcap[MAXOQ], pqcap[MAXPQ];
    /* library objects */
    struct cmb_resource *res[MAXRES];
    struct cmb_resourcepool *pool[MAXPOOL];
    struct cmb_buffer *buf[MAXBUF];
    struct cmb_objectqueue *oq[MAXOQ];
    struct cmb_priorityqueue *pq[MAXPQ];
    struct cmb_condition *cond[MAXCOND];
    guardref guards[MAXGUARD]; int nguards;
    /* model state */
    int res_holder[MAXRES];                     /* believed holder, -1 none */
    unsigned __int128 buf_put[MAXBUF], buf_got[MAXBUF];  /* completed + in-flight partial, maintained from bufvars; 128 bits: totals may pass 2^64 */
    qitem oqm[MAXOQ][MAXQ]; int oqn[MAXOQ];
    qitem pqm[MAXPQ][MAXQ]; int pqn[MAXPQ];
    uint64_t pq_handles[MAXPQ][256]; int pq_nh[MAXPQ];
    int64_t var[MAXVAR];
    hevent hev[MAXHEV];
    /* recording (C14): one window per object */
    struct { bool on, done, ever; double t0, t1; double integral; double last_t; double last_v; uint64_t changes; int windows; double on_time, win_t0; } rec[5][4];
    /* run */
    uint64_t seq;            /* events executed */
    uint64_t sigctr;
    double now;
    bool stop_judging;
} world;

extern world W;
extern proc PR[MAXP];
extern const plan *PLAN;

/* procs_world.c */
void world_build(const plan *p);
void world_teardown(void);
void *proc_body(struct cmb_process *me, void *ctx);
void fault_fire(int fi);
double tnow(void);
int proc_of(const struct cmb_process *pp);
void proc_end(proc *pr, int endkind, void *val);
cause *cause_add(proc *pr, int kind, int64_t value, double due, bool must);
uint64_t true_state(int kind, int idx);
int guard_of_wait(const proc *pr);

/* procs_mon.c */
void mon_before_event(void);
void mon_after_event(void);
void mon_boundary_eval(void);      /* fills the pending verdicts */
void mon_boundary_commit(void);    /* previous instant is over: pending verdicts become violations */
void mon_quiescence(void);
void mon_call_ret(proc *pr, int64_t ret);
void mon_reset(void);
void pend_viol(const char *prop, const char *sig, const char *fmt, ...) __attribute__((format(printf,3,4)));

/* recording of blocking-call windows for the single-fault sweep */
typedef struct { int pid, stepk, op; double t0, t1; int64_t prio; } callrec;
extern uint64_t g_harness_activity;   /* bumped whenever harness code runs a step or a fault: delimits what the library does in one go */
#define MAXCALLREC 200
#define MAXEVT 2048
extern bool g_rec_on; extern callrec g_rec[MAXCALLREC]; extern int g_nrec; extern double g_evt[MAXEVT]; extern int g_nevt;

/* procs_gen.c */
void procs_gen(plan *p, uint64_t seed, const char *cfg);

#endif
