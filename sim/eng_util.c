/* eng_util.c - C10: valid call sequences on the utility classes (dataset, timeseries, summaries,
 * alias tables) and sampler calls, from the dispatcher and from inside a simulated process (where
 * MXCSR traps invalid operations and division by zero).  Oracle: the process dies or a sanitizer
 * reports.  Sizes sit on both sides of the array-doubling thresholds (1024, 2048).
 *
 * Plan lines:
 *   INIT inproc dataseed
 *   DS n pattern | TS n pattern tpattern        (re)build dataset / timeseries with n >= 1 samples
 *   DOP op a b | TOP op a b                     operation on the dataset / the timeseries
 *   SUM n pattern | WSUM n pattern wpattern     data summary / weighted summary round trip
 *   ALIAS n pattern k                           alias table with n entries, k draws
 *   SAMPLE kind a                               one sampler call with boundary parameters
 *   LOG which a                                 user-level logging calls (own flag bits, custom time format)
 *   EMPTY which a                               operations on empty (or emptied) containers, copies into targets with data
 */
#include "core.h"
#include <math.h>
#include <stdlib.h>
#include <string.h>
#include <xmmintrin.h>
#include "cimba.h"

static const plan *P;
static FILE *devnull;
static vrng drng;
static struct cmb_dataset *ds;
static struct cmb_timeseries *ts;

static double value_of(int pattern, int i, int n)
{
    switch (((pattern % 7) + 7) % 7) {
        case 0: return (double)vrng_below(&drng, 10);
        case 1: return 3.0;                                 /* constant data */
        case 2: return (double)i;                           /* already sorted */
        case 3: return (double)(n - i);                     /* reverse sorted */
        case 4: return 1e9 + (double)vrng_below(&drng, 4);  /* large common offset */
        case 5: return (double)vrng_below(&drng, 2);        /* many duplicates */
        default: return (double)((int64_t)vrng_below(&drng, 2000) - 1000) / 8.0;
    }
}
static int size_of(int64_t code)
{
    static const int sz[] = { 1, 2, 3, 4, 5, 7, 8, 9, 16, 31, 100, 1023, 1024, 1025, 2047, 2048, 2049, 3000 };
    return sz[(uint64_t)code % (sizeof sz / sizeof sz[0])];
}

static void build_ds(int n, int pattern)
{
    if (ds) cmb_dataset_destroy(ds);
    ds = cmb_dataset_create(); cmb_dataset_initialize(ds);
    for (int i = 0; i < n; i++) (void)cmb_dataset_add(ds, value_of(pattern, i, n));
}
static void build_ts(int n, int pattern, int tpattern)
{
    if (ts) cmb_timeseries_destroy(ts);
    ts = cmb_timeseries_create(); cmb_timeseries_initialize(ts);
    double t = 0.0;
    for (int i = 0; i < n; i++) {
        (void)cmb_timeseries_add(ts, value_of(pattern, i, n), t);
        switch (((tpattern % 4) + 4) % 4) {
            case 0: t += 1.0; break;
            case 1: t += (double)vrng_below(&drng, 3); break;           /* zero durations */
            case 2: t += (i == 0) ? 1000.0 : 0.25; break;               /* one sample holds most of the duration */
            default: t += (i % 2) ? 0.0 : 0.5; break;
        }
    }
}

static void ds_op(const struct cmb_dataset *d, int op, int64_t a, int64_t b)
{
    const uint64_t n = cmb_dataset_count(d);
    double buf[66], buf2[66];
    switch (((op % 12) + 12) % 12) {
        case 0: cmb_dataset_sort(d); break;
        case 1: (void)cmb_dataset_median(d); break;
        case 2: cmb_dataset_fivenum_print(d, devnull, (a & 1) != 0); break;
        case 3: {
            /* now and then more bins than a 16-bit index can number (the parameter is an unsigned) */
            const unsigned bins = ((uint64_t)a % 97 == 96) ? 70000u + (unsigned)((uint64_t)b % 1000) : 1 + (unsigned)((uint64_t)a % 30);
            if (bins > 65535u) {
                /* bins are never narrower than 1, so that many bins need data that spread that far */
                PROBE("util.histogram_more_than_65535_bins");
                struct cmb_dataset *c = cmb_dataset_create(); cmb_dataset_initialize(c);
                for (int i = 0; i < 12; i++) (void)cmb_dataset_add(c, (double)bins * (double)i / 11.0 - ((i & 1) ? 0.5 : 0.0));
                (void)cmb_dataset_add(c, (double)bins + 10.0); (void)cmb_dataset_add(c, -3.0);
                if (b % 3 == 0) cmb_dataset_histogram_print(c, devnull, bins, 0.0, 0.0);
                else cmb_dataset_histogram_print(c, devnull, bins, 0.0, (double)bins);
                cmb_dataset_destroy(c);
                break;
            }
            if (b % 3 == 0) cmb_dataset_histogram_print(d, devnull, bins, 0.0, 0.0);     /* autoscale */
            else cmb_dataset_histogram_print(d, devnull, bins, -2.0, 2.0 + (double)(b % 7));
            break; }
        case 4: if (n > 1) { const unsigned lag = 1 + (unsigned)((uint64_t)a % (n - 1 > 64 ? 64 : n - 1)); cmb_dataset_ACF(d, lag, buf); } break;
        case 5: if (n > 2) { const unsigned lag = 1 + (unsigned)((uint64_t)a % (n - 2 > 64 ? 64 : n - 2)); cmb_dataset_PACF(d, lag, buf, NULL); } break;
        case 6: if (n > 2) { const unsigned lag = 1 + (unsigned)((uint64_t)a % (n - 2 > 64 ? 64 : n - 2)); cmb_dataset_ACF(d, lag, buf2); cmb_dataset_PACF(d, lag, buf, buf2); } break;
        case 7: if (n > 1) { const unsigned lag = 1 + (unsigned)((uint64_t)a % (n - 1 > 64 ? 64 : n - 1)); cmb_dataset_correlogram_print(d, devnull, lag, NULL); } break;
        case 8: { struct cmb_datasummary s; cmb_datasummary_initialize(&s); (void)cmb_dataset_summarize(d, &s);
                  (void)cmb_datasummary_mean(&s); (void)cmb_datasummary_variance(&s); (void)cmb_datasummary_stddev(&s);
                  (void)cmb_datasummary_skewness(&s); (void)cmb_datasummary_kurtosis(&s); cmb_datasummary_print(&s, devnull, true); cmb_datasummary_terminate(&s); break; }
        case 9: { struct cmb_dataset *c = cmb_dataset_create(); cmb_dataset_initialize(c); (void)cmb_dataset_copy(c, d); (void)cmb_dataset_median(c);
                  if (a & 1) { for (int i = 0; i < 1 + (int)((uint64_t)b % 5); i++) (void)cmb_dataset_add(c, (double)i); (void)cmb_dataset_median(c); }
                  cmb_dataset_destroy(c); break; }
        case 10: { /* cmb_dataset_merge() is declared in the header but defined nowhere (link error): not callable */
                   struct cmb_dataset *c = cmb_dataset_create(); cmb_dataset_initialize(c); (void)cmb_dataset_copy(c, d); cmb_dataset_sort(c); cmb_dataset_reset(c); cmb_dataset_destroy(c); break; }
        default: if (n <= 64) cmb_dataset_print(d, devnull); (void)cmb_dataset_min(d); (void)cmb_dataset_max(d); break;
    }
}

static void ts_op(int op, int64_t a, int64_t b)
{
    const uint64_t n = cmb_timeseries_count(ts);
    double buf[66];
    switch (((op % 12) + 12) % 12) {
        case 0: cmb_timeseries_sort_x(ts); break;
        case 1: cmb_timeseries_sort_t(ts); break;
        case 2: (void)cmb_timeseries_median(ts); break;
        case 3: cmb_timeseries_fivenum_print(ts, devnull, (a & 1) != 0); break;
        case 4: {
            const uint16_t bins = ((uint64_t)a % 97 == 96) ? (uint16_t)65535u : (uint16_t)(1 + (uint64_t)a % 30);   /* the largest number the parameter can carry: two more bins are added for the tails */
            if (bins == 65535u) {
                PROBE("util.histogram_65535_bins");
                struct cmb_timeseries *c = cmb_timeseries_create(); cmb_timeseries_initialize(c);
                for (int i = 0; i < 12; i++) (void)cmb_timeseries_add(c, 65535.0 * (double)i / 11.0 - ((i & 1) ? 0.5 : 0.0), (double)i);
                (void)cmb_timeseries_add(c, 65600.0, 12.0); (void)cmb_timeseries_add(c, -3.0, 13.0); (void)cmb_timeseries_finalize(c, 14.0);
                if (b % 3 == 0) cmb_timeseries_histogram_print(c, devnull, bins, 0.0, 0.0);
                else cmb_timeseries_histogram_print(c, devnull, bins, 0.0, 65535.0);
                cmb_timeseries_destroy(c);
                break;
            }
            if (b % 3 == 0) cmb_timeseries_histogram_print(ts, devnull, bins, 0.0, 0.0);
            else cmb_timeseries_histogram_print(ts, devnull, bins, -2.0, 2.0 + (double)(b % 7));
            break; }
        case 5: { struct cmb_wtdsummary w; cmb_wtdsummary_initialize(&w); (void)cmb_timeseries_summarize(ts, &w);
                  (void)cmb_wtdsummary_mean(&w); (void)cmb_wtdsummary_variance(&w); (void)cmb_wtdsummary_skewness(&w); (void)cmb_wtdsummary_kurtosis(&w);
                  (void)cmb_wtdsummary_count(&w); (void)cmb_wtdsummary_min(&w); (void)cmb_wtdsummary_max(&w);
                  cmb_wtdsummary_print(&w, devnull, true); cmb_wtdsummary_terminate(&w); break; }
        case 6: { struct cmb_timeseries *c = cmb_timeseries_create(); cmb_timeseries_initialize(c); (void)cmb_timeseries_copy(c, ts); (void)cmb_timeseries_median(c);
                  if (a & 1) {                                   /* a copy is a time series in its own right: it goes on recording */
                      const struct cmb_dataset *cd = (const struct cmb_dataset *)c;
                      double t = c->ta[cd->count - 1];
                      const int more = 1 + (int)((uint64_t)b % 5);
                      for (int i = 0; i < more; i++) { t += 0.5; (void)cmb_timeseries_add(c, (double)i, t); }
                      if (b & 1) (void)cmb_timeseries_finalize(c, t + 1.0);
                      (void)cmb_timeseries_median(c);
                      PROBE("util.copy_then_add");
                  }
                  cmb_timeseries_destroy(c); break; }
        case 7: if (n > 1) { const unsigned lag = 1 + (unsigned)((uint64_t)a % (n - 1 > 64 ? 64 : n - 1)); cmb_timeseries_ACF(ts, lag, buf); if (b & 1) cmb_timeseries_correlogram_print(ts, devnull, lag, (b & 2) ? buf : NULL); } break;
        case 8: if (n > 2) { const unsigned lag = 1 + (unsigned)((uint64_t)a % (n - 2 > 64 ? 64 : n - 2)); cmb_timeseries_PACF(ts, lag, buf, NULL); } break;
        case 9: if (n <= 64) cmb_timeseries_print(ts, devnull); (void)cmb_timeseries_min(ts); (void)cmb_timeseries_max(ts); break;
        case 10: ds_op((const struct cmb_dataset *)ts, (int)(a % 4), a, b); break;      /* the documented unweighted route */
        default: { const struct cmb_dataset *d = (const struct cmb_dataset *)ts; (void)cmb_timeseries_finalize(ts, ts->ta[d->count - 1] + (double)(a % 3)); break; }
    }
}

static void sum_roundtrip(int n, int pattern, int wpattern, bool weighted)
{
    if (!weighted) {
        struct cmb_datasummary *a = cmb_datasummary_create(), *b = cmb_datasummary_create(), *c = cmb_datasummary_create();
        cmb_datasummary_initialize(a); cmb_datasummary_initialize(b); cmb_datasummary_initialize(c);
        for (int i = 0; i < n; i++) (void)cmb_datasummary_add((i % 2) ? a : b, value_of(pattern, i, n));
        (void)cmb_datasummary_merge(c, a, b); (void)cmb_datasummary_merge(a, a, b);
        (void)cmb_datasummary_mean(c); (void)cmb_datasummary_variance(c); (void)cmb_datasummary_stddev(c); (void)cmb_datasummary_skewness(c); (void)cmb_datasummary_kurtosis(c);
        (void)cmb_datasummary_min(c); (void)cmb_datasummary_max(c); (void)cmb_datasummary_count(c);
        cmb_datasummary_print(c, devnull, true); cmb_datasummary_print(a, devnull, false);
        cmb_datasummary_reset(b); (void)cmb_datasummary_merge(c, b, b);
        cmb_datasummary_destroy(a); cmb_datasummary_destroy(b); cmb_datasummary_destroy(c);
    } else {
        struct cmb_wtdsummary *a = cmb_wtdsummary_create(), *b = cmb_wtdsummary_create(), *c = cmb_wtdsummary_create();
        cmb_wtdsummary_initialize(a); cmb_wtdsummary_initialize(b); cmb_wtdsummary_initialize(c);
        for (int i = 0; i < n; i++) {
            double w = 1.0;
            switch (((wpattern % 4) + 4) % 4) { case 0: w = 1.0; break; case 1: w = (double)vrng_below(&drng, 3); break; case 2: w = (i == 0) ? 1000.0 : 0.5; break; default: w = 0.25 * (double)(1 + i % 3); break; }
            (void)cmb_wtdsummary_add((i % 2) ? a : b, value_of(pattern, i, n), w);
        }
        (void)cmb_wtdsummary_merge(c, a, b); (void)cmb_wtdsummary_merge(b, a, b);
        (void)cmb_wtdsummary_mean(c); (void)cmb_wtdsummary_variance(c); (void)cmb_wtdsummary_stddev(c); (void)cmb_wtdsummary_skewness(c); (void)cmb_wtdsummary_kurtosis(c);
        cmb_wtdsummary_print(c, devnull, true);
        cmb_wtdsummary_destroy(a); cmb_wtdsummary_destroy(b); cmb_wtdsummary_destroy(c);
    }
}

static void alias_roundtrip(int n, int pattern, int k)
{
    if (n < 1) n = 1;
    if (n > 300) n = 300;
    double *pa = malloc(sizeof(double) * (size_t)n);
    double sum = 0.0;
    for (int i = 0; i < n; i++) {
        switch (((pattern % 4) + 4) % 4) { case 0: pa[i] = 1.0; break; case 1: pa[i] = (double)(1 + vrng_below(&drng, 9)); break; case 2: pa[i] = (i == 0) ? 1000.0 : 1.0; break; default: pa[i] = (i % 3 == 0) ? 0.0 : 1.0; break; }
        sum += pa[i];
    }
    if (sum <= 0.0) { pa[0] = 1.0; sum = 1.0; }
    /* a fifth of the tables sum to one only within the tolerance the library itself accepts (1e-3), from below or from above */
    const double slack = (k % 5 == 0) ? ((k % 2) ? 0.9992 : 1.0008) : 1.0;
    for (int i = 0; i < n; i++) pa[i] = pa[i] / sum * slack;
    struct cmb_random_alias *ap = cmb_random_alias_create((unsigned)n, pa);
    for (int i = 0; i < k; i++) { const unsigned r = cmb_random_alias_sample(ap); if (r >= (unsigned)n) viol("C10", "alias-index", "alias sample %u out of %d", r, n); }
    for (int i = 0; i < k && n <= 15; i++) { const unsigned r = cmb_random_loaded_dice((unsigned)n, pa); if (r >= (unsigned)n) viol("C10", "alias-index", "loaded dice returned %u for %d faces", r, n); }
    if (n <= 3) { double ma[3] = { 1.0, 0.5, 2.0 }; for (int i = 0; i < k; i++) (void)cmb_random_hyperexponential((unsigned)n, ma, pa); }
    cmb_random_alias_destroy(ap);
    free(pa);
}

static void sample_call(int kind, int64_t a)
{
    static const double means[] = { 1.0, 0.001, 1000.0, 1e-9 };
    const unsigned z = (unsigned)((uint64_t)a % 4);
    switch (((kind % 30) + 30) % 30) {
        case 0: (void)cmb_random_geometric(z == 0 ? 1.0 : 0.5); break;               /* p = 1 is admissible: (0, 1] */
        case 1: (void)cmb_random_bernoulli(z == 0 ? 1.0 : z == 1 ? 0.0 : 0.5); break;
        case 2: (void)cmb_random_binomial(1 + z * 10, z == 0 ? 1.0 : 0.3); break;
        case 3: (void)cmb_random_negative_binomial(1 + z, z == 0 ? 1.0 : 0.4); break;
        case 4: (void)cmb_random_poisson(means[z]); break;
        case 5: (void)cmb_random_dice(1, 2 + (long)z); break;
        case 6: (void)cmb_random_exponential(means[z]); break;
        case 7: (void)cmb_random_erlang(1 + z, means[z]); break;
        case 8: (void)cmb_random_gamma(z == 0 ? 0.5 : z == 1 ? 1.0 : 0.05, 1.0); break;  /* shape < 1 */
        case 9: (void)cmb_random_std_beta(0.5 + z, 0.5); break;
        case 10: (void)cmb_random_weibull(0.5 + z, 1.0); break;
        case 11: (void)cmb_random_pareto(1.0 + z, 1.0); break;
        case 12: (void)cmb_random_chisquared(1.0 + z); break;
        case 13: (void)cmb_random_F_dist(1.0 + z, 2.0); break;
        case 14: (void)cmb_random_std_t_dist(1.0 + z); break;
        case 15: (void)cmb_random_rayleigh(0.5 + z); break;
        case 16: (void)cmb_random_triangular(0.0, z == 0 ? 0.0 : 1.0, z == 1 ? 1.0 : 2.0); break;   /* mode on a bound */
        case 17: (void)cmb_random_PERT(0.0, 1.0, 3.0 + z); break;
        case 18: (void)cmb_random_lognormal(0.0, 0.25 * (1 + z)); break;
        case 19: (void)cmb_random_logistic(0.0, 1.0 + z); break;
        case 20: (void)cmb_random_cauchy(0.0, 1.0 + z); break;
        case 21: (void)cmb_random_normal(0.0, 1.0 + z); break;
        case 22: (void)cmb_random_uniform(-1.0, 0.0 + z); break;
        case 23: { double ma[3] = { 1.0, 0.5, 2.0 }; (void)cmb_random_hypoexponential(1 + z % 3, ma); break; }
        case 24: { double ma[3] = { 1.0, 0.5, 2.0 }; double pa[3] = { 0.5, 0.25, 0.25 }; (void)cmb_random_hyperexponential(3, ma, pa); break; }
        case 25: (void)cmb_random_flip(); break;
        case 26: (void)cmb_random_std_normal(); break;
        case 27: (void)cmb_random_std_exponential(); break;
        case 28: (void)cmb_random_beta(1.0 + z, 2.0, -1.0, 1.0); break;
        default: (void)cmb_random_t_dist(0.0, 1.0, 2.0 + z); break;
    }
}

/* the containers while still (or again) empty, and copies into targets that already hold data */
static void empty_ops(int which, int64_t a)
{
    struct cmb_dataset *e = cmb_dataset_create(); cmb_dataset_initialize(e);
    struct cmb_timeseries *t = cmb_timeseries_create(); cmb_timeseries_initialize(t);
    if (a & 8) { (void)cmb_dataset_add(e, 1.0); cmb_dataset_reset(e); (void)cmb_timeseries_add(t, 1.0, 0.0); cmb_timeseries_reset(t); }   /* empty again */
    switch (((which % 10) + 10) % 10) {
        case 0: cmb_dataset_sort(e); (void)cmb_dataset_count(e); break;
        case 1: (void)cmb_dataset_median(e); break;
        case 2: cmb_dataset_fivenum_print(e, devnull, (a & 1) != 0); break;
        case 3: cmb_dataset_print(e, devnull); cmb_dataset_histogram_print(e, devnull, 1 + (unsigned)(a % 20), 0.0, (a & 2) ? 0.0 : 5.0); break;
        case 4: { struct cmb_datasummary su; cmb_datasummary_initialize(&su); (void)cmb_dataset_summarize(e, &su); cmb_datasummary_print(&su, devnull, true); cmb_datasummary_terminate(&su); break; }
        case 5: { struct cmb_wtdsummary w; cmb_wtdsummary_initialize(&w); (void)cmb_timeseries_summarize(t, &w); cmb_wtdsummary_print(&w, devnull, true);
                  cmb_wtdsummary_reset(&w); (void)cmb_wtdsummary_add(&w, 2.0, 1.0); cmb_wtdsummary_reset(&w); cmb_wtdsummary_terminate(&w); break; }
        case 6: cmb_timeseries_print(t, devnull); cmb_timeseries_histogram_print(t, devnull, 1 + (unsigned)(a % 20), 0.0, (a & 2) ? 0.0 : 5.0); break;
        case 7: cmb_timeseries_sort_x(t); cmb_timeseries_sort_t(t); (void)cmb_timeseries_finalize(t, 2.0 + (double)(a % 3)); (void)cmb_timeseries_count(t);   /* the closing call on a history that never recorded */
                /* the weighted median / five-number summary of nothing, e.g. of the history of an object that never recorded: the header
                 * states no precondition, and the unweighted versions warn and carry on */
                if (a & 4) { cmb_timeseries_reset(t); (void)cmb_timeseries_median(t); cmb_timeseries_fivenum_print(t, devnull, (a & 1) != 0); PROBE("util.weighted_median_of_nothing"); }
                break;
        case 8: if (ds) { (void)cmb_dataset_copy(ds, e); (void)cmb_dataset_count(ds); (void)cmb_dataset_add(ds, 4.0); (void)cmb_dataset_median(ds); }          /* an empty source into a target with data */
                else { build_ds(9, 0); struct cmb_dataset *c = cmb_dataset_create(); cmb_dataset_initialize(c); (void)cmb_dataset_add(c, 1.0); (void)cmb_dataset_copy(c, ds); (void)cmb_dataset_median(c); cmb_dataset_destroy(c); }
                break;
        default: if (ts) { struct cmb_timeseries *c = cmb_timeseries_create(); cmb_timeseries_initialize(c); (void)cmb_timeseries_add(c, 1.0, 0.0); (void)cmb_timeseries_add(c, 2.0, 1.0);
                           (void)cmb_timeseries_copy(c, ts); (void)cmb_timeseries_median(c); (void)cmb_timeseries_copy(c, t); (void)cmb_timeseries_count(c); cmb_timeseries_destroy(c); }
                 break;
    }
    cmb_dataset_destroy(e); cmb_timeseries_destroy(t);
    PROBE("util.empty_container_ops");
}

/* user-level logging: own flag bits, from the dispatcher and from inside a process, default and custom time format */
static const char *fmt_time(double t) { static _Thread_local char buf[32]; snprintf(buf, sizeof buf, "<%.3f>", t); return buf; }
static void log_ops(int which, int64_t a)
{
    const uint32_t bit = UINT32_C(1) << ((uint64_t)a % 28);
    switch (((which % 5) + 5) % 5) {
        case 0: cmb_logger_flags_on(bit); cmb_logger_user(devnull, bit, "user message %d", (int)a); cmb_logger_flags_off(bit); break;
        case 1: cmb_logger_flags_off(bit); cmb_logger_user(devnull, bit, "suppressed %d", (int)a); break;
        case 2: cmb_logger_set_timeformatter(fmt_time); cmb_logger_flags_on(bit); cmb_logger_user(devnull, bit, "%s", ""); cmb_logger_user(devnull, bit | (bit << 1), "two bits"); cmb_logger_flags_off(bit); break;
        case 3: cmb_logger_flags_on(CMB_LOGGER_WARNING); cmb_logger_warning(devnull, "a warning with the seed, %g", 1.5); cmb_logger_flags_off(CMB_LOGGER_WARNING); break;
        default: cmb_logger_flags_on(CMB_LOGGER_INFO); cmb_logger_info(devnull, "info %" PRId64, a); cmb_logger_flags_off(CMB_LOGGER_INFO); break;
    }
    PROBE("util.logger_calls");
}

static void interpret(void)
{
    for (int i = 0; i < P->n; i++) {
        const pline *l = &P->l[i];
        g_stats.events++;
        if (pis(l, "DS")) build_ds(size_of(pa(l, 0)), (int)pa(l, 1));
        else if (pis(l, "TS")) build_ts(size_of(pa(l, 0)), (int)pa(l, 1), (int)pa(l, 2));
        else if (pis(l, "DOP")) { if (!ds) build_ds(5, 0); ds_op(ds, (int)pa(l, 0), pa(l, 1), pa(l, 2)); }
        else if (pis(l, "TOP")) { if (!ts) build_ts(5, 0, 0); ts_op((int)pa(l, 0), pa(l, 1), pa(l, 2)); }
        else if (pis(l, "SUM")) sum_roundtrip((int)((uint64_t)pa(l, 0) % 40), (int)pa(l, 1), 0, false);
        else if (pis(l, "WSUM")) sum_roundtrip((int)((uint64_t)pa(l, 0) % 40), (int)pa(l, 1), (int)pa(l, 2), true);
        else if (pis(l, "ALIAS")) alias_roundtrip((int)((uint64_t)pa(l, 0) % 300) + 1, (int)pa(l, 1), (int)((uint64_t)pa(l, 2) % 200));
        else if (pis(l, "SAMPLE")) sample_call((int)pa(l, 0), pa(l, 1));
        else if (pis(l, "EMPTY")) empty_ops((int)pa(l, 0), pa(l, 1));
        else if (pis(l, "LOG")) log_ops((int)pa(l, 0), pa(l, 1));
        TR2(l->op, pa(l, 0), pa(l, 1));
    }
}

static void *proc_fn(struct cmb_process *me, void *ctx)
{
    (void)me; (void)ctx;
#ifdef __clang__
    /* clang converts double -> uint64_t with a speculative cvttsd2si that raises a spurious invalid-operation
     * exception for values >= 2^63 (well-defined in C); with the exceptions Cimba unmasks inside a process that is
     * a SIGFPE owed to the compiler, not to the library.  Real traps are judged on the gcc (rel) build. */
    _mm_setcsr(0x1f80);
#endif
    interpret();
    return NULL;
}

static void ut_run(const plan *p)
{
    cmb_logger_flags_off(CMB_LOGGER_INFO | CMB_LOGGER_WARNING);
    P = p;
    if (!devnull) devnull = fopen("/dev/null", "w");
    bool inproc = false; uint64_t dseed = 1;
    for (int i = 0; i < p->n; i++) if (pis(&p->l[i], "INIT")) { inproc = (pa(&p->l[i], 0) & 1) != 0; dseed = (uint64_t)pa(&p->l[i], 1); break; }
    vrng_seed(&drng, dseed);
    cmb_random_initialize(dseed ^ 0xabcdefull);
    ds = NULL; ts = NULL;
    if (inproc) {
        cmb_event_queue_initialize(0.0);
        struct cmb_process *pp = cmb_process_create();
        cmb_process_initialize(pp, "util", proc_fn, NULL, 0);
        cmb_process_start(pp);
        cmb_event_queue_execute();
        cmb_process_terminate(pp); cmb_process_destroy(pp);
        cmb_event_queue_terminate();
        PROBE("util.ran_inside_process");
    } else interpret();
    if (ds) cmb_dataset_destroy(ds);
    if (ts) cmb_timeseries_destroy(ts);
    g_stats.nontrivial = g_stats.events >= 3;
}

static void ut_gen(plan *p, uint64_t seed, const char *cfg)
{
    (void)cfg;
    vrng r; vrng_seed(&r, seed);
    plan_add(p, "INIT", 2, (int64_t)vrng_below(&r, 2), (int64_t)(vrng_next(&r) >> 20));
    const int n = 3 + (int)vrng_below(&r, 14);
    for (int i = 0; i < n; i++) {
        const unsigned k = (unsigned)vrng_below(&r, 100);
        if (k < 12) plan_add(p, "DS", 2, (int64_t)vrng_below(&r, vrng_chance(&r, 1, 3) ? 18 : 11), (int64_t)vrng_below(&r, 7));
        else if (k < 24) plan_add(p, "TS", 3, (int64_t)vrng_below(&r, vrng_chance(&r, 1, 3) ? 18 : 11), (int64_t)vrng_below(&r, 7), (int64_t)vrng_below(&r, 4));
        else if (k < 46) plan_add(p, "DOP", 3, (int64_t)vrng_below(&r, 12), (int64_t)vrng_below(&r, 100), (int64_t)vrng_below(&r, 20));
        else if (k < 68) plan_add(p, "TOP", 3, (int64_t)vrng_below(&r, 12), (int64_t)vrng_below(&r, 100), (int64_t)vrng_below(&r, 20));
        else if (k < 74) plan_add(p, "SUM", 2, (int64_t)vrng_below(&r, 40), (int64_t)vrng_below(&r, 7));
        else if (k < 80) plan_add(p, "WSUM", 3, (int64_t)vrng_below(&r, 40), (int64_t)vrng_below(&r, 7), (int64_t)vrng_below(&r, 4));
        else if (k < 82) plan_add(p, "LOG", 2, (int64_t)vrng_below(&r, 5), (int64_t)vrng_below(&r, 100));
        else if (k < 84) plan_add(p, "EMPTY", 2, (int64_t)vrng_below(&r, 10), (int64_t)vrng_below(&r, 16));
        else if (k < 87) plan_add(p, "ALIAS", 3, (int64_t)vrng_below(&r, vrng_chance(&r, 1, 2) ? 6 : 300), (int64_t)vrng_below(&r, 4), (int64_t)vrng_below(&r, 200));
        else plan_add(p, "SAMPLE", 2, (int64_t)vrng_below(&r, 30), (int64_t)vrng_below(&r, 4));
    }
}

const engine eng_util = {
    .name = "util", .props = "C10", .gen = ut_gen, .run = ut_run,
    .rule = "sequences of at least three utility-class or sampler calls",
};
