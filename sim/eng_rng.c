/* eng_rng.c - C15: random streams depend on the seed alone and are the documented generator.
 *
 * Plan lines:
 *   INIT nthreads schedseed switchpct
 *   D t kind arg        dirty prefix of thread t: draws made BEFORE seeding (arbitrary history)
 *   SEED t code         thread t seeds with seed_of(code) (default: derived from t)
 *   C t kind arg        post-seed call of thread t; its result is recorded bit for bit
 * Real threads (TLS is per real thread) are parked and released by the baton scheduler between any
 * two calls.  Oracle: the recorded post-seed outputs equal (a) those of the same call list in a fresh
 * thread with no prefix and no neighbours, (b) for the raw calls before the first non-raw call, an
 * independent sfc64 + splitmix64 x4 + 20 discards implementation.
 */
#include "core.h"
#include "baton.h"
#include <pthread.h>
#include <stdlib.h>
#include <string.h>
#include "cmb_random.h"
#include "cmb_logger.h"

int __real_pthread_create(pthread_t *, const pthread_attr_t *, void *(*)(void *), void *);
int __real_pthread_join(pthread_t, void **);

#define MAXT 4
#define MAXCALLS 400
#define NKIND 38

static const plan *P;
static int nthreads;
static uint64_t out[MAXT][MAXCALLS], ref[MAXT][MAXCALLS];
static int nout[MAXT], nref[MAXT];

static uint64_t bits_of(double d) { uint64_t v; memcpy(&v, &d, sizeof v); return v; }
static uint64_t seed_of(int64_t code)
{
    switch (code) {
        case 0: return 0; case 1: return 1; case 2: return UINT64_MAX; case 3: return 0x0000DEAD5EED0000ull;
        default: return mix64(0x5eed, (uint64_t)code);
    }
}

/* independent reference generator */
typedef struct { uint64_t a, b, c, d; } rsfc;
static uint64_t r_splitmix(uint64_t *s)
{
    uint64_t z = (*s += 0x9e3779b97f4a7c15ull);
    z = (z ^ (z >> 30)) * 0xbf58476d1ce4e5b9ull;
    z = (z ^ (z >> 27)) * 0x94d049bb133111ebull;
    return z ^ (z >> 31);
}
static uint64_t r_next(rsfc *g)
{
    const uint64_t tmp = g->a + g->b + g->d++;
    g->a = g->b ^ (g->b >> 11);
    g->b = g->c + (g->c << 3);
    g->c = ((g->c << 24) | (g->c >> 40)) + tmp;
    return tmp;
}
static void r_seed(rsfc *g, uint64_t seed)
{
    uint64_t s = seed;
    g->a = r_splitmix(&s); g->b = r_splitmix(&s); g->c = r_splitmix(&s); g->d = r_splitmix(&s);
    for (int i = 0; i < 20; i++) (void)r_next(g);
}

static uint64_t do_call(int kind, int64_t arg)
{
    static const double shapes[] = { 0.5, 1.0, 2.5, 7.0 };
    
    /* boundary parameters too: p = 1 is admissible for the discrete samplers and takes other paths through the cached-parameter code */
    static const double probs8[] = { 0.1, 0.5, 0.9, 0.25, 1.0, 1.0, 0.75, 0.01 };
    const unsigned a = (unsigned)((uint64_t)arg % 4);
    const double pb = probs8[(uint64_t)arg % 8];
    switch (((kind % NKIND) + NKIND) % NKIND) {
        case 0: return cmb_random_sfc64();
        case 1: return bits_of(cmb_random());
        case 2: return bits_of(cmb_random_uniform(-1.0, 3.0 + a));
        case 3: return bits_of(cmb_random_std_normal());
        case 4: return bits_of(cmb_random_std_exponential());
        case 5: return (uint64_t)cmb_random_flip();
        case 6: return bits_of(cmb_random_gamma(shapes[a] + 1.0, 2.0));
        case 7: return (uint64_t)cmb_random_geometric(pb);
        case 8: return (uint64_t)cmb_random_bernoulli(pb);
        case 9: return (uint64_t)cmb_random_dice(1, 6 + (long)a);
        case 10: return (uint64_t)cmb_random_poisson(0.5 + 3.0 * a);
        case 11: return (uint64_t)cmb_random_binomial(3 + 5 * a, pb);
        case 12: return bits_of(cmb_random_triangular(0.0, 1.0 + a, 5.0));
        case 13: return bits_of(cmb_random_std_beta(shapes[a] + 1.0, 2.0));
        case 14: return bits_of(cmb_random_weibull(shapes[a] + 1.0, 1.5));
        case 15: return bits_of(cmb_random_erlang(1 + a, 2.0));
        case 16: return bits_of(cmb_random_normal(1.0, 2.0 + a));
        case 17: return bits_of(cmb_random_exponential(1.0 + a));
        case 18: return bits_of(cmb_random_std_gamma(shapes[a] + 1.0));
        case 19: return bits_of(cmb_random_lognormal(0.0, 0.5));
        case 20: return bits_of(cmb_random_chisquared(1.0 + a));
        case 21: return (uint64_t)cmb_random_negative_binomial(1 + a, pb);
        case 22: return bits_of(cmb_random_rayleigh(1.0 + a));
        case 23: return bits_of(cmb_random_PERT(0.0, 1.0 + a, 6.0));
        case 24: return bits_of(cmb_random_PERT_mod(0.0, 1.0 + a, 6.0, 2.0 + a));
        case 25: return bits_of(cmb_random_beta(shapes[a] + 1.0, 2.0, -1.0, 4.0));
        case 26: return bits_of(cmb_random_F_dist(2.0 + a, 5.0));
        case 27: return bits_of(cmb_random_std_t_dist(2.0 + a));
        case 28: return bits_of(cmb_random_t_dist(1.0, 2.0, 3.0 + a));
        case 29: return bits_of(cmb_random_cauchy(0.0, 1.0 + a));
        case 30: return bits_of(cmb_random_logistic(0.0, 1.0 + a));
        case 31: return bits_of(cmb_random_pareto(1.5 + a, 1.0));
        case 32: { const double ma[3] = { 1.0, 0.5, 2.0 }; return bits_of(cmb_random_hypoexponential(1 + a % 3, ma)); }
        case 33: { const double ma[3] = { 1.0, 0.5, 2.0 }; const double pa3[3] = { 0.5, 0.25, 0.25 }; return bits_of(cmb_random_hyperexponential(3, ma, pa3)); }
        case 34: return (uint64_t)cmb_random_pascal(1 + a, pb);
        case 35: { const double pa4[4] = { 0.1, 0.2, 0.3, 0.4 }; return (uint64_t)cmb_random_loaded_dice(4, pa4); }
        case 36: { const double pa4[4] = { 0.4, 0.1, 0.25, 0.25 }; struct cmb_random_alias *ap = cmb_random_alias_create(4, pa4);
                   const uint64_t r = (uint64_t)cmb_random_alias_sample(ap) * 4u + (uint64_t)cmb_random_alias_sample(ap); cmb_random_alias_destroy(ap); return r; }
        default: return bits_of(cmb_random_normal(0.0, 1.0)) ^ (uint64_t)cmb_random_flip();
    }
}

static uint64_t seed_for_thread(int t)
{
    for (int i = 0; i < P->n; i++) if (pis(&P->l[i], "SEED") && (int)((uint64_t)pa(&P->l[i], 0) % (uint64_t)nthreads) == t) return seed_of(pa(&P->l[i], 1));
    return seed_of(100 + t);
}

static void *thread_script(void *vp)
{
    const int t = (int)(intptr_t)vp;
    /* dirty prefix: whatever this thread did before (an earlier trial, a half-used bit cache, cached parameters, an old seeding) */
    for (int i = 0; i < P->n; i++) {
        const pline *l = &P->l[i];
        if (!pis(l, "D") || (int)((uint64_t)pa(l, 0) % (uint64_t)nthreads) != t) continue;
        if (pa(l, 1) == 99) cmb_random_initialize(seed_of(pa(l, 2)));
        else if (pa(l, 1) == 98) { cmb_random_terminate(); PROBE("rng.terminate_in_history"); }      /* the end of an earlier trial */
        else (void)do_call((int)pa(l, 1), pa(l, 2));
        baton_yield();
    }
    cmb_random_initialize(seed_for_thread(t));
    baton_yield();
    for (int i = 0; i < P->n; i++) {
        const pline *l = &P->l[i];
        if (!pis(l, "C") || (int)((uint64_t)pa(l, 0) % (uint64_t)nthreads) != t || nout[t] >= MAXCALLS) continue;
        out[t][nout[t]++] = do_call((int)pa(l, 1), pa(l, 2));
        g_stats.events++;
        baton_yield();
    }
    if (cmb_random_curseed() != seed_for_thread(t)) viol("C15", "curseed", "thread %d: cmb_random_curseed() differs from the seed it used", t);
    return NULL;
}

static void *thread_reference(void *vp)
{
    const int t = (int)(intptr_t)vp;
    cmb_random_initialize(seed_for_thread(t));
    for (int i = 0; i < P->n; i++) {
        const pline *l = &P->l[i];
        if (!pis(l, "C") || (int)((uint64_t)pa(l, 0) % (uint64_t)nthreads) != t || nref[t] >= MAXCALLS) continue;
        ref[t][nref[t]++] = do_call((int)pa(l, 1), pa(l, 2));
    }
    return NULL;
}

static void rng_run(const plan *p)
{
    cmb_logger_flags_off(CMB_LOGGER_INFO | CMB_LOGGER_WARNING);
    P = p;
    nthreads = 2; uint64_t sched = 1; int pct = 60;
    for (int i = 0; i < p->n; i++) if (pis(&p->l[i], "INIT")) {
        nthreads = 1 + (int)((uint64_t)pa(&p->l[i], 0) % MAXT); sched = (uint64_t)pa(&p->l[i], 1); pct = (int)((uint64_t)pa(&p->l[i], 2) % 101); break;
    }
    memset(nout, 0, sizeof nout); memset(nref, 0, sizeof nref);
    libstate_snapshot();
    baton_begin(sched, pct);
    for (int t = 0; t < nthreads; t++) baton_spawn(thread_script, (void *)(intptr_t)t);
    baton_run_all();
    baton_end();
    {   /* "do not depend on which thread makes the calls, or on what other threads do": nothing the samplers keep may be shared */
        size_t off = 0;
        const char *m = libstate_changed(&off);
        if (m) viol("C15", "shared-library-state-written", "static non-thread-local storage of %s (offset %zu) changed while the threads drew numbers: the generator keeps state that threads share", m, off);
        if (libstate_ranges() > 0) PROBE("rng.library_static_state_compared");
    }
    g_stats.faults = baton_switches();
    bool dirty = false;
    for (int i = 0; i < p->n; i++) if (pis(&p->l[i], "D")) dirty = true;
    for (int t = 0; t < nthreads; t++) {
        pthread_t th;
        __real_pthread_create(&th, NULL, thread_reference, (void *)(intptr_t)t);
        __real_pthread_join(th, NULL);
        if (nref[t] != nout[t]) { viol("C15", "harness", "reference call count differs"); continue; }
        for (int k = 0; k < nout[t]; k++) {
            TR3("draw", t, k, out[t][k]);
            if (out[t][k] != ref[t][k]) {
                /* which call kind was it? */
                int kind = -1, seen = 0;
                for (int i = 0; i < p->n; i++) { const pline *l = &p->l[i]; if (pis(l, "C") && (int)((uint64_t)pa(l, 0) % (uint64_t)nthreads) == t) { if (seen == k) { kind = (int)((pa(l, 1) % NKIND + NKIND) % NKIND); break; } seen++; } }
                viol("C15", dirty ? "depends-on-history-or-neighbours" : "depends-on-neighbours",
                     "thread %d call #%d (kind %d): %#" PRIx64 " after seeding, but %#" PRIx64 " in a fresh thread with the same seed and call list", t, k, kind, out[t][k], ref[t][k]);
                break;
            }
        }
        /* raw stream against the independent implementation, up to the first non-raw call */
        rsfc g; r_seed(&g, seed_for_thread(t));
        int k = 0;
        for (int i = 0; i < p->n; i++) {
            const pline *l = &p->l[i];
            if (!pis(l, "C") || (int)((uint64_t)pa(l, 0) % (uint64_t)nthreads) != t || k >= nout[t]) continue;
            if (((pa(l, 1) % NKIND) + NKIND) % NKIND != 0) break;
            const uint64_t want = r_next(&g);
            if (out[t][k] != want) { viol("C15", "not-documented-generator", "thread %d: raw output #%d is %#" PRIx64 ", sfc64 seeded by splitmix64 with 20 discards gives %#" PRIx64, t, k, out[t][k], want); break; }
            k++;
        }
        if (k >= 3) PROBE("rng.raw_prefix_ge3_compared");
    }
    if (dirty) PROBE("rng.dirty_prefix");
    g_stats.nontrivial = dirty && g_stats.faults >= 1;
}

static void rng_gen(plan *p, uint64_t seed, const char *cfg)
{
    (void)cfg;
    vrng r; vrng_seed(&r, seed);
    const int nt = 1 + (int)vrng_below(&r, MAXT);
    plan_add(p, "INIT", 3, (int64_t)(nt - 1), (int64_t)(vrng_next(&r) >> 16), (int64_t)(20 + vrng_below(&r, 81)));
    for (int t = 0; t < nt; t++) {
        if (vrng_chance(&r, 1, 2)) plan_add(p, "SEED", 2, (int64_t)t, (int64_t)vrng_below(&r, vrng_chance(&r, 1, 3) ? 4 : 1000));
        else if (t > 0 && vrng_chance(&r, 1, 3)) plan_add(p, "SEED", 2, (int64_t)t, (int64_t)7);     /* several threads share a seed */
        const int nd = vrng_chance(&r, 1, 4) ? 0 : (int)vrng_below(&r, 30);
        for (int i = 0; i < nd; i++) {
            const unsigned z = (unsigned)vrng_below(&r, 10);
            int64_t kind = (int64_t)vrng_below(&r, NKIND);
            if (z < 3) kind = 5;                       /* flips: a partially consumed bit cache */
            else if (z < 4) kind = vrng_chance(&r, 1, 3) ? 98 : 99;   /* an earlier seeding, or the terminate call that ends a trial */
            else if (z < 6) kind = vrng_chance(&r, 1, 2) ? 6 : 7;  /* cached parameters */
            plan_add(p, "D", 3, (int64_t)t, kind, (int64_t)vrng_below(&r, 8));
        }
        const bool rawonly = vrng_chance(&r, 1, 4);
        const int nc = 3 + (int)vrng_below(&r, 40);
        for (int i = 0; i < nc; i++) {
            int64_t kind = rawonly || (i < 4 && vrng_chance(&r, 1, 2)) ? 0 : (int64_t)vrng_below(&r, NKIND);
            if (!rawonly && vrng_chance(&r, 1, 5)) kind = 5;
            plan_add(p, "C", 3, (int64_t)t, kind, (int64_t)vrng_below(&r, 8));
        }
    }
}

const engine eng_rng = {
    .name = "rng", .props = "C15", .gen = rng_gen, .run = rng_run,
    .rule = "runs with a dirty pre-seed history in at least one thread and at least one baton hand-over between threads",
};
