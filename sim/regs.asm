; regs.asm - harness-side assembly for C03.
;  switch_shim(fn, a1, a2, pat): loads rbx, rbp, r12-r15 with pat+0..5, calls fn(a1, a2) (a C function
;  that performs a context switch somewhere inside), and on return compares all six registers.
;  A mismatch stores 1+register index in shim_bad. The stack slot holding pat is itself a sentinel.
;  coro_entry_stub / coro_exit_stub record rsp at function entry before jumping to the C bodies.
bits 64
default rel
section .note.GNU-stack noalloc noexec nowrite progbits
section .bss
global shim_bad
global entry_rsp
global exit_rsp
shim_bad:  resq 1
entry_rsp: resq 1
exit_rsp:  resq 1
section .text
global switch_shim
global coro_entry_stub
global coro_exit_stub
extern coro_body_c
extern coro_exit_c

switch_shim:
    push rbp
    push rbx
    push r12
    push r13
    push r14
    push r15
    sub rsp, 24               ; keeps 16-byte alignment at the call (entry 8 mod 16, +48 +24 = 72+8)
    mov [rsp], rcx            ; pattern, also a stack sentinel
    mov [rsp + 8], rcx
    not qword [rsp + 8]
    mov rax, rdi
    mov rdi, rsi
    mov rsi, rdx
    mov rbx, rcx
    lea rbp, [rcx + 1]
    lea r12, [rcx + 2]
    lea r13, [rcx + 3]
    lea r14, [rcx + 4]
    lea r15, [rcx + 5]
    call rax
    mov rcx, [rsp]
    mov rdx, [rsp + 8]
    not rdx
    cmp rdx, rcx
    jne .bad7
    cmp rbx, rcx
    jne .bad1
    lea rdx, [rcx + 1]
    cmp rbp, rdx
    jne .bad2
    lea rdx, [rcx + 2]
    cmp r12, rdx
    jne .bad3
    lea rdx, [rcx + 3]
    cmp r13, rdx
    jne .bad4
    lea rdx, [rcx + 4]
    cmp r14, rdx
    jne .bad5
    lea rdx, [rcx + 5]
    cmp r15, rdx
    jne .bad6
.out:
    add rsp, 24
    pop r15
    pop r14
    pop r13
    pop r12
    pop rbx
    pop rbp
    ret
.bad1: mov qword [shim_bad], 1
    jmp .out
.bad2: mov qword [shim_bad], 2
    jmp .out
.bad3: mov qword [shim_bad], 3
    jmp .out
.bad4: mov qword [shim_bad], 4
    jmp .out
.bad5: mov qword [shim_bad], 5
    jmp .out
.bad6: mov qword [shim_bad], 6
    jmp .out
.bad7: mov qword [shim_bad], 7
    jmp .out

coro_entry_stub:
    mov [entry_rsp], rsp
    jmp coro_body_c

coro_exit_stub:
    mov [exit_rsp], rsp
    jmp coro_exit_c
