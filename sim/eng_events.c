/* eng_events.c - C01: the event queue against an exact executable model.
 *
 * Plan lines (ctx = -1: issued from outside the dispatcher; ctx = k >= 0: issued from inside
 * every invocation of action k while fuel lasts):
 *   INIT   startcode                     start time = +-dur_of(code)
 *   SCHED  ctx dt prio act subj obj      schedule at now+dur_of(dt)
 *   BURST  ctx n dt prio                 n events, action (i % NACT), subj i%3, obj unique
 *   CANCEL ctx i                         i indexes handles issued so far (modulo)
 *   RESCH  ctx i dt                      only if the model says handle i is pending
 *   REPRIO ctx i prio                    only if pending
 *   QUERY  ctx i                         is_scheduled (+time/priority if pending), count, is_empty
 *   PFIND/PCOUNT/PCANCEL ctx act subj obj   -1 = wildcard
 *   CLEAR  ctx
 *   RUN    ctx k                         (outside only) execute k events
 * After the last line the queue is run until empty (budget-capped).
 */
#include "core.h"
#include <stdlib.h>
#include <string.h>
#include "cmb_event.h"
#include "cmb_logger.h"

#define NACT 6
#define MAXEV 4096
#define EVBUDGET 3000
#define FUEL 600

typedef struct {
    uint64_t issue, handle;
    double time;
    int64_t prio;
    int act; int64_t subj, obj;
    bool pending;
    int executed, cancelled;
} mev;

static mev ev[MAXEV];
static int nev;                 /* events ever issued */
static const plan *P;
static int fuel;
static int64_t cur_idx;         /* model index of the event whose action is running, -1 outside */
static int64_t last_idx;        /* most recently executed */
static double model_time;
static uint64_t executed_total;
static bool stop_run;

static void *ptr_of(int64_t code, void *any)
{
    if (code < 0) return any;
    return (void *)(uintptr_t)(0x1000 + code * 16);
}
static int64_t code_of(void *p) { return ((int64_t)(uintptr_t)p - 0x1000) / 16; }

static void act_common(int act, void *subj, void *obj);
static void act0(void *s, void *o) { act_common(0, s, o); }
static void act1(void *s, void *o) { act_common(1, s, o); }
static void act2(void *s, void *o) { act_common(2, s, o); }
static void act3(void *s, void *o) { act_common(3, s, o); }
static void act4(void *s, void *o) { act_common(4, s, o); }
static void act5(void *s, void *o) { act_common(5, s, o); }
static cmb_event_func *const actf[NACT] = { act0, act1, act2, act3, act4, act5 };
static cmb_event_func *actptr(int64_t code) { return code < 0 ? CMB_ANY_ACTION : actf[code % NACT]; }

static int model_count(void) { int c = 0; for (int i = 0; i < nev; i++) c += ev[i].pending; return c; }

static int model_next(void)
{
    int best = -1;
    for (int i = 0; i < nev; i++) {
        if (!ev[i].pending) continue;
        if (best < 0) { best = i; continue; }
        const mev *a = &ev[i], *b = &ev[best];
        if (a->time < b->time
            || (a->time == b->time && (a->prio > b->prio
                || (a->prio == b->prio && a->issue < b->issue)))) best = i;
    }
    return best;
}

static bool mmatch(const mev *e, int64_t act, int64_t subj, int64_t obj)
{
    return e->pending && (act < 0 || e->act == act % NACT) && (subj < 0 || e->subj == subj)
           && (obj < 0 || e->obj == obj);
}

static void check_invariants(const char *where)
{
    if (cmb_time() != model_time)
        viol("C01", "clock", "%s: cmb_time()=%g but model time %g", where, cmb_time(), model_time);
    const uint64_t cur = cmb_event_current();
    const uint64_t want = (last_idx >= 0) ? ev[last_idx].handle : 0;
    /* the property speaks about the query while an action runs; outside it is only a probe */
    if (cur != want && cur_idx >= 0)
        viol("C01", "current-inside-action",
             "%s: cmb_event_current()=%" PRIu64 " but the running event has handle %" PRIu64,
             where, cur, want);
    else if (cur != want) PROBE("ev.current_differs_outside_action");
    const uint64_t cnt = cmb_event_queue_count();
    if ((int)cnt != model_count())
        viol("C01", "count", "%s: queue_count=%" PRIu64 " model=%d", where, cnt, model_count());
    if (cmb_event_queue_is_empty() != (model_count() == 0))
        viol("C01", "is-empty", "%s: is_empty disagrees with model count %d", where, model_count());
}

static void do_step(const pline *l, int ctx)
{
    const double now = model_time;
    if (pis(l, "SCHED") || pis(l, "BURST")) {
        const bool burst = pis(l, "BURST");
        int n = burst ? (int)(pa(l, 1) % 200) : 1;
        if (n < 0) n = -n;
        for (int k = 0; k < n && nev < MAXEV; k++) {
            mev *e = &ev[nev];
            memset(e, 0, sizeof *e);
            e->issue = (uint64_t)nev;
            e->time = now + dur_of(pa(l, 2));
            if (burst) {
                e->prio = prio_of(pa(l, 3));
                e->act = k % NACT; e->subj = k % 3; e->obj = 100 + nev;
            } else {
                e->time = now + dur_of(pa(l, 1));
                e->prio = prio_of(pa(l, 2));
                e->act = (int)(((pa(l, 3) % NACT) + NACT) % NACT);
                e->subj = pa(l, 4) < 0 ? 0 : pa(l, 4) % 4;
                e->obj = pa(l, 5) < 0 ? 100 + nev : pa(l, 5) % 4;
            }
            if (!(e->time >= now)) e->time = now;      /* precondition: time >= now */
            const uint64_t before = cmb_event_queue_count();
            if (before == 8 || before == 16 || before == 32 || before == 64 || before == 128 || before == 256) {
                if (ctx >= 0) PROBE("ev.grow_inside_action"); else PROBE("ev.grow_outside");
            }
            e->handle = cmb_event_schedule(actf[e->act], ptr_of(e->subj, NULL), ptr_of(e->obj, NULL),
                                           e->time, e->prio);
            e->pending = true;
            nev++;
            TR4("sched", e->issue, dbits(e->time), e->prio, e->handle);
            if (e->handle == 0) viol("C01", "handle-zero", "schedule returned handle 0");
            for (int j = 0; j < nev - 1; j++)
                if (ev[j].pending && ev[j].handle == e->handle)
                    viol("C01", "handle-dup", "handle %" PRIu64 " issued while still pending", e->handle);
        }
        return;
    }
    if (pis(l, "CANCEL")) {
        if (nev == 0) return;
        mev *e = &ev[(uint64_t)pa(l, 1) % (uint64_t)nev];
        const bool r = cmb_event_cancel(e->handle);
        TR2("cancel", e->issue, r);
        if (r != e->pending)
            viol("C01", "cancel-retval", "cancel(handle %" PRIu64 ") returned %d, model pending=%d",
                 e->handle, r, e->pending);
        if (e->pending) { e->pending = false; e->cancelled++; }
        return;
    }
    if (pis(l, "RESCH") || pis(l, "REPRIO")) {
        if (nev == 0) return;
        mev *e = &ev[(uint64_t)pa(l, 1) % (uint64_t)nev];
        if (!e->pending) return;                        /* precondition: must be scheduled */
        if (pis(l, "RESCH")) {
            double t = now + dur_of(pa(l, 2));
            if (!(t >= now)) t = now;
            cmb_event_reschedule(e->handle, t);
            e->time = t;
            TR2("resch", e->issue, dbits(t));
        } else {
            e->prio = prio_of(pa(l, 2));
            cmb_event_reprioritize(e->handle, e->prio);
            TR2("reprio", e->issue, e->prio);
        }
        if (ctx >= 0) PROBE("ev.reshuffle_inside_action");
        return;
    }
    if (pis(l, "QUERY")) {
        if (nev == 0) return;
        const mev *e = &ev[(uint64_t)pa(l, 1) % (uint64_t)nev];
        const bool s = cmb_event_is_scheduled(e->handle);
        if (s != e->pending)
            viol("C01", "is-scheduled", "is_scheduled(%" PRIu64 ")=%d, model pending=%d", e->handle, s, e->pending);
        if (s && e->pending) {
            if (cmb_event_time(e->handle) != e->time)
                viol("C01", "event-time", "event_time(%" PRIu64 ")=%g model %g", e->handle,
                     cmb_event_time(e->handle), e->time);
            if (cmb_event_priority(e->handle) != e->prio)
                viol("C01", "event-priority", "event_priority(%" PRIu64 ")=%" PRId64 " model %" PRId64,
                     e->handle, cmb_event_priority(e->handle), e->prio);
        }
        TR2("query", e->issue, s);
        return;
    }
    if (pis(l, "PFIND") || pis(l, "PCOUNT") || pis(l, "PCANCEL")) {
        const int64_t a = pa(l, 1), s = pa(l, 2) < 0 ? -1 : pa(l, 2) % 4, o = pa(l, 3) < 0 ? -1 : pa(l, 3);
        int m = 0;
        for (int i = 0; i < nev; i++) m += mmatch(&ev[i], a, s, o);
        if (pis(l, "PFIND")) {
            const uint64_t h = cmb_event_pattern_find(actptr(a), ptr_of(s, CMB_ANY_SUBJECT), ptr_of(o, CMB_ANY_OBJECT));
            bool ok = (m == 0) ? (h == 0) : false;
            if (m > 0) for (int i = 0; i < nev; i++) if (mmatch(&ev[i], a, s, o) && ev[i].handle == h) ok = true;
            if (!ok) viol("C01", "pattern-find", "pattern_find returned %" PRIu64 " with %d matching events pending", h, m);
            TR2("pfind", m, h != 0);
        } else if (pis(l, "PCOUNT")) {
            const uint64_t c = cmb_event_pattern_count(actptr(a), ptr_of(s, CMB_ANY_SUBJECT), ptr_of(o, CMB_ANY_OBJECT));
            if ((int)c != m) viol("C01", "pattern-count", "pattern_count=%" PRIu64 " model %d", c, m);
            TR2("pcount", m, c);
        } else {
            const uint64_t c = cmb_event_pattern_cancel(actptr(a), ptr_of(s, CMB_ANY_SUBJECT), ptr_of(o, CMB_ANY_OBJECT));
            if ((int)c != m) viol("C01", "pattern-cancel", "pattern_cancel=%" PRIu64 " model %d", c, m);
            for (int i = 0; i < nev; i++) if (mmatch(&ev[i], a, s, o)) { ev[i].pending = false; ev[i].cancelled++; }
            TR2("pcancel", m, c);
        }
        return;
    }
    if (pis(l, "CLEAR")) {
        cmb_event_queue_clear();
        for (int i = 0; i < nev; i++) if (ev[i].pending) { ev[i].pending = false; ev[i].cancelled++; }
        TR0("clear");
        if (ctx >= 0) PROBE("ev.clear_inside_action");
        return;
    }
}

static void act_common(int act, void *subj, void *obj)
{
    const int want = model_next();
    executed_total++;
    g_stats.events++;
    if (want < 0) {
        viol("C01", "ran-nonpending", "action %d ran although the model has no pending event", act);
        stop_run = true;
        return;
    }
    mev *e = &ev[want];
    const uint64_t cur = cmb_event_current();
    /* identify what actually ran */
    int got = -1;
    for (int i = 0; i < nev; i++) if (ev[i].handle == cur && (ev[i].pending || got < 0)) { got = i; if (ev[i].pending) break; }
    if (e->act != act || code_of(subj) != e->subj || code_of(obj) != e->obj) {
        /* some other event ran: classify */
        const char *sig = "order";
        if (got >= 0 && !ev[got].pending) sig = ev[got].cancelled ? "cancelled-ran" : "ran-twice";
        else if (got >= 0 && ev[got].time == e->time && ev[got].prio == e->prio) sig = "order-fifo";
        else if (got >= 0 && ev[got].time == e->time) sig = "order-priority";
        else if (got >= 0) sig = "order-time";
        viol("C01", sig, "expected issue#%" PRIu64 " (t=%g prio=%" PRId64 " act=%d) but act=%d subj=%" PRId64 " obj=%" PRId64 " ran (handle %" PRIu64 ")",
             e->issue, e->time, e->prio, e->act, act, code_of(subj), code_of(obj), cur);
        /* resynchronise on what ran, if identifiable, else stop judging this run */
        if (got >= 0 && ev[got].pending) e = &ev[got]; else { stop_run = true; return; }
    }
    if (e->time < model_time)
        viol("C01", "clock-backwards", "event time %g below clock %g", e->time, model_time);
    model_time = e->time;
    e->pending = false;
    e->executed++;
    cur_idx = last_idx = (int64_t)(e - ev);
    TR3("exec", e->issue, dbits(e->time), e->prio);
    check_invariants("action entry");
    /* steps issued from inside this action */
    for (int i = 0; i < P->n && fuel > 0 && !stop_run; i++) {
        const pline *l = &P->l[i];
        if (l->n < 1 || l->a[0] != act || pis(l, "RUN") || pis(l, "INIT")) continue;
        fuel--;
        do_step(l, act);
        check_invariants("inside action after step");
    }
    cur_idx = -1;
}

static void run_events(int64_t k)
{
    while (k-- > 0 && !stop_run) {
        if (executed_total >= EVBUDGET) { g_stats.budget = true; return; }
        const int want = model_next();
        const bool more = cmb_event_execute_next();
        if (more != (want >= 0)) {
            viol("C01", want >= 0 ? "not-run" : "ran-nonpending",
                 "execute_next returned %d but model has %d pending", more, model_count());
            return;
        }
        if (!more) return;
        check_invariants("after event");
    }
}

static void ev_run(const plan *p)
{
    P = p;
    nev = 0; fuel = FUEL; cur_idx = -1; last_idx = -1; executed_total = 0; stop_run = false;
    cmb_logger_flags_off(CMB_LOGGER_INFO | CMB_LOGGER_WARNING);
    double start = 0.0;
    for (int i = 0; i < p->n; i++)
        if (pis(&p->l[i], "INIT")) { start = dur_of(pa(&p->l[i], 0)); if (pa(&p->l[i], 0) < 0) start = -start; break; }
    model_time = start;
    cmb_event_queue_initialize(start);
    const double t_begin = start;
    if (cmb_event_current() != 0)
        viol("C01", "current-initial", "cmb_event_current() = %" PRIu64 " before any event ran", cmb_event_current());
    for (int i = 0; i < p->n && !stop_run; i++) {
        const pline *l = &p->l[i];
        if (pis(l, "INIT") || l->n < 1 || l->a[0] >= 0) continue;
        if (pis(l, "RUN")) run_events(pa(l, 1) < 0 ? 0 : pa(l, 1));
        else do_step(l, -1);
        check_invariants("outside");
    }
    if (!stop_run) run_events(EVBUDGET + 1);
    /* end: every event ran exactly once unless cancelled/cleared */
    if (!stop_run && !g_stats.budget) {
        for (int i = 0; i < nev; i++) {
            const mev *e = &ev[i];
            if (e->executed + e->cancelled != 1 || e->pending)
                viol("C01", e->executed > 1 ? "ran-twice" : "not-run",
                     "issue#%" PRIu64 " executed %d times, cancelled %d, pending %d", e->issue,
                     e->executed, e->cancelled, e->pending);
        }
    }
    g_stats.simtime = (model_time - t_begin < 1e200) ? model_time - t_begin : 0.0;
    /* non-trivial: at least one tie in (time) among executed events and some in-action mutation */
    g_stats.nontrivial = (fuel < FUEL) && nev >= 4;
    cmb_event_queue_terminate();
}

/* ---------------- generator ---------------- */
static int64_t gen_dt(vrng *r, int mode)
{
    static const int64_t pal[] = { 0, 0, 0, 0, 4, 4, 8, 2, 1, 12 };
    if (mode == 2 && vrng_chance(r, 1, 6)) return 1000 + (int64_t)vrng_below(r, 6);
    if (mode == 1) return (int64_t)vrng_below(r, 40);
    return pal[vrng_below(r, sizeof pal / sizeof pal[0])];
}
static int64_t gen_prio(vrng *r, int mode)
{
    static const int64_t pal[] = { 0, 0, 0, 1, -1, 2, 1000001, -1000001, 1000002, -1000002 };
    if (mode == 0) return 0;
    if (mode == 1) return vrng_range(r, -1, 2);
    return pal[vrng_below(r, sizeof pal / sizeof pal[0])];
}
static int64_t gen_pat(vrng *r, int n) { return vrng_chance(r, 1, 2) ? -1 : (int64_t)vrng_below(r, (uint64_t)n); }

static void gen_step(plan *p, vrng *r, int64_t ctx, int tmode, int pmode, int issued_guess)
{
    const unsigned k = (unsigned)vrng_below(r, 100);
    const int64_t idx = (int64_t)vrng_below(r, (uint64_t)(issued_guess > 0 ? issued_guess : 1));
    if (k < 38) plan_add(p, "SCHED", 6, ctx, gen_dt(r, tmode), gen_prio(r, pmode), (int64_t)vrng_below(r, NACT),
                         (int64_t)vrng_below(r, 4), vrng_chance(r, 1, 2) ? (int64_t)-1 : (int64_t)vrng_below(r, 4));
    else if (k < 48) plan_add(p, "CANCEL", 2, ctx, idx);
    else if (k < 60) plan_add(p, "RESCH", 3, ctx, idx, gen_dt(r, tmode));
    else if (k < 72) plan_add(p, "REPRIO", 3, ctx, idx, gen_prio(r, pmode ? pmode : 1));
    else if (k < 80) plan_add(p, "QUERY", 2, ctx, idx);
    else if (k < 85) plan_add(p, "PFIND", 4, ctx, gen_pat(r, NACT), gen_pat(r, 4), gen_pat(r, 4));
    else if (k < 90) plan_add(p, "PCOUNT", 4, ctx, gen_pat(r, NACT), gen_pat(r, 4), gen_pat(r, 4));
    else if (k < 94) plan_add(p, "PCANCEL", 4, ctx, gen_pat(r, NACT), gen_pat(r, 4), vrng_chance(r, 2, 3) ? gen_pat(r, 4) : (int64_t)(100 + idx));
    else if (k < 95) plan_add(p, "CLEAR", 1, ctx);
    else plan_add(p, "BURST", 4, ctx, (int64_t)(1 + vrng_below(r, ctx < 0 ? 70 : 12)), gen_dt(r, tmode), gen_prio(r, pmode));
}

static void ev_gen(plan *p, uint64_t seed, const char *cfg)
{
    (void)cfg;
    vrng r; vrng_seed(&r, seed);
    const int tmode = (int)vrng_below(&r, 3), pmode = (int)vrng_below(&r, 3);
    static const int64_t starts[] = { 0, 0, 0, -8, 40, -1000, 1002 };
    plan_add(p, "INIT", 1, starts[vrng_below(&r, 7)]);
    const int ntop = 4 + (int)vrng_below(&r, 40);
    const int nact = (int)vrng_below(&r, 14);
    int guess = 0;
    /* growth template: put the queue exactly at a doubling threshold, then mutate from inside */
    if (vrng_chance(&r, 1, 4)) {
        static const int64_t th[] = { 7, 8, 15, 16, 31, 32, 63, 64, 127, 128 };
        const int64_t n = th[vrng_below(&r, 10)] + (int64_t)vrng_below(&r, 2);
        plan_add(p, "BURST", 4, (int64_t)-1, n, gen_dt(&r, 0), gen_prio(&r, pmode));
        guess += (int)n;
    }
    for (int i = 0; i < ntop; i++) {
        if (vrng_chance(&r, 1, 5)) plan_add(p, "RUN", 2, (int64_t)-1, (int64_t)(1 + vrng_below(&r, 6)));
        else { gen_step(p, &r, -1, tmode, pmode, guess + 2); guess += 1; }
    }
    for (int i = 0; i < nact; i++) gen_step(p, &r, (int64_t)vrng_below(&r, NACT), tmode, pmode, guess + 4);
}

const engine eng_events = {
    .name = "events", .props = "C01", .gen = ev_gen, .run = ev_run,
    .rule = "runs with >= 4 events in which at least one step was issued from inside a running action",
};
