/* procs_gen.c - seed -> plan for the procs engine.  cfg keys (comma separated):
 *   mix=wait|res|pool|buf|oq|pq|cond|all   object/op mix          faults=0|1|2  none / random / heavy
 *   crowd=1   20-36 processes on one or two objects (crosses the 8 and 16 waiter thresholds)
 *   rec=1     recording steps (C14)
 *   churn=1   priority churn on one long waiting list (see gen_churn)
 *   storm=1   everything in very few instants: short scripts that end and are restarted, waits for processes, zero or one-quarter durations
 *   huge=1    unlimited buffers and amounts around 2^62, 2^63 and 2^64
 */
#include "procs.h"
#include <stdlib.h>
#include <string.h>

typedef struct { const char *op; int w; int kind; } opw;
/* a timer; one in eight carries the signal value 0 (CMB_PROCESS_SUCCESS): the header allows any value, and a timer that ends a yield
 * "successfully" is a natural use.  Third argument 1 = signal 0. */
static void add_tm(plan *p, vrng *r, const char *op, int64_t i, int64_t d)
{
    if (vrng_chance(r, 1, 8)) plan_add(p, op, 3, i, d, (int64_t)1); else plan_add(p, op, 2, i, d);
}

enum { K_HOLD = 1, K_TADD, K_TSET, K_TCANCEL, K_TCLEAR, K_YIELD, K_INTR, K_STOP, K_PRIO, K_RESUME, K_START, K_WAITP, K_WAITE,
       K_SCHEV, K_CANEV, K_EXIT, K_STOPSELF, K_ACQ, K_REL, K_PRE, K_PACQ, K_PPRE, K_PREL, K_BPUT, K_BGET, K_QPUT, K_QGET,
       K_KPUT, K_KGET, K_KCAN, K_KREP, K_CWAIT, K_CSIG, K_SETVAR, K_CCAN, K_CREM, K_GCAN, K_GREM, K_RECON, K_RECOFF, K_BLOCK_RES, K_BLOCK_POOL, K_REPORT, K_OBS, K_WAITT };

static int cfg_has(const char *cfg, const char *key, const char *val)
{
    char pat[64]; snprintf(pat, sizeof pat, "%s=%s", key, val);
    const char *p = strstr(cfg, pat);
    if (!p) return 0;
    const char c = p[strlen(pat)];
    return c == 0 || c == ',';
}
static int cfg_int(const char *cfg, const char *key, int def)
{
    char pat[32]; snprintf(pat, sizeof pat, "%s=", key);
    const char *p = strstr(cfg, pat);
    return p ? atoi(p + strlen(pat)) : def;
}

static int64_t g_dt(vrng *r, int tmode)
{
    static const int64_t grid[] = { 0, 0, 4, 4, 4, 8, 8, 12, 2, 1 };
    if (tmode == 3) { static const int64_t few[] = { 0, 0, 0, 1, 1, 4 }; return few[vrng_below(r, 6)]; }     /* storm: nearly everything coincides */
    if (tmode == 1) return (int64_t)vrng_below(r, 24);
    if (tmode == 2 && vrng_chance(r, 1, 10)) return 1000 + (int64_t)vrng_below(r, 6);
    return grid[vrng_below(r, 10)];
}
static int64_t g_prio(vrng *r, int pmode)
{
    if (pmode == 0) return 0;
    if (pmode == 1) return vrng_range(r, -1, 2);
    static const int64_t pal[] = { 0, 1, -1, 2, 1000001, -1000001, 1000002, -1000002, 5 };
    return pal[vrng_below(r, 9)];
}

/* churn=1: one long waiting list (5-24 waiters on one resource / pool / buffer side / queue) whose members' priorities are raised and
 * lowered again and again by two controller processes while waiters keep arriving and the list is served one grant at a time.
 * The waiter count is biased to the 8 and 16 thresholds at which the list's storage doubles. */
static void gen_churn(plan *p, vrng *r)
{
    const int cls = (int)vrng_below(r, 6);      /* 0 res, 1 pool, 2 buffer getters, 3 buffer putters, 4 object queue getters, 5 priority queue getters */
    static const int hot[] = { 7, 8, 8, 9, 10, 15, 16, 16, 17, 18 };
    int nw = vrng_chance(r, 1, 2) ? hot[vrng_below(r, 10)] : 5 + (int)vrng_below(r, 20);
    const int nctl = 2, np = nw + nctl;
    const int64_t cap = 1 + (int64_t)vrng_below(r, 3);
    plan_add(p, "CFG", 8, (int64_t)(np - 1), (int64_t)(cls == 0), (int64_t)(cls == 1), (int64_t)(cls == 2 || cls == 3), (int64_t)(cls == 4), (int64_t)(cls == 5), (int64_t)0, (int64_t)0);
    int slot[MAXP];
    for (int i = 0; i < MAXP; i++) slot[i] = i;
    if (vrng_chance(r, 2, 3)) for (int i = MAXP - 1; i > 0; i--) { const int j = (int)vrng_below(r, (uint64_t)i + 1); const int t = slot[i]; slot[i] = slot[j]; slot[j] = t; }
    const int wide = (int)vrng_below(r, 3);     /* 0: few priority levels (FIFO ties dominate), 1: many, 2: all distinct at first */
    for (int i = 0; i < np; i++) {
        int64_t pr = i < nctl ? 0 : wide == 0 ? vrng_range(r, 0, 2) : wide == 1 ? vrng_range(r, -3, 12) : (int64_t)(3 * i);
        plan_add(p, "P", 4, (int64_t)i, (int64_t)slot[i], pr, (int64_t)0);
    }
    if (cls == 1) plan_add(p, "CAP", 3, (int64_t)1, (int64_t)0, cap);
    if (cls == 2 || cls == 3) plan_add(p, "CAP", 3, (int64_t)2, (int64_t)0, cap + 1);
    if (cls == 4) plan_add(p, "CAP", 3, (int64_t)3, (int64_t)0, (int64_t)0);
    if (cls == 5) plan_add(p, "CAP", 3, (int64_t)4, (int64_t)0, (int64_t)0);
#define NEWPRIO() (wide == 0 ? vrng_range(r, -1, 3) : vrng_range(r, -6, 3 * np))
#define WAITER() ((int64_t)(nctl + (int)vrng_below(r, (uint64_t)nw)))
    /* controller 0: occupy, let the list build, churn, then serve */
    int n0 = 0;
    if (cls == 0) { plan_add(p, "ACQ", 2, (int64_t)0, (int64_t)0); n0++; }
    if (cls == 1) { plan_add(p, "PACQ", 3, (int64_t)0, (int64_t)0, cap - 1); n0++; }
    if (cls == 3) { plan_add(p, "BPUT", 3, (int64_t)0, (int64_t)0, (int64_t)103); n0++; }
    plan_add(p, "HOLD", 2, (int64_t)0, (int64_t)(4 + vrng_below(r, 8))); n0++;
    const int k1 = 2 + (int)vrng_below(r, 9);
    for (int k = 0; k < k1 && n0 < MAXSTEPS - 8; k++) {
        plan_add(p, "PRIO", 3, (int64_t)0, WAITER(), NEWPRIO()); n0++;
        if (vrng_chance(r, 1, 3)) { plan_add(p, "HOLD", 2, (int64_t)0, (int64_t)vrng_below(r, 3)); n0++; }
    }
    plan_add(p, "HOLD", 2, (int64_t)0, (int64_t)vrng_below(r, 3)); n0++;
    if (cls == 0) { plan_add(p, "REL", 2, (int64_t)0, (int64_t)0); n0++; }
    if (cls == 1) { plan_add(p, "PREL", 3, (int64_t)0, (int64_t)0, cap - 1); n0++; }
    while (n0 < MAXSTEPS - 3) {
        if (cls == 2) plan_add(p, "BPUT", 3, (int64_t)0, (int64_t)0, (int64_t)(1 + vrng_below(r, 2)));
        else if (cls == 3) plan_add(p, "BGET", 3, (int64_t)0, (int64_t)0, (int64_t)(1 + vrng_below(r, 2)));
        else if (cls == 4) plan_add(p, "QPUT", 3, (int64_t)0, (int64_t)0, (int64_t)0);
        else if (cls == 5) plan_add(p, "KPUT", 4, (int64_t)0, (int64_t)0, vrng_range(r, 0, 3), (int64_t)0);
        else plan_add(p, "PRIO", 3, (int64_t)0, WAITER(), NEWPRIO());
        n0++;
        plan_add(p, "HOLD", 2, (int64_t)0, (int64_t)vrng_below(r, 3)); n0++;
        if (vrng_chance(r, 1, 3)) { plan_add(p, "PRIO", 3, (int64_t)0, WAITER(), NEWPRIO()); n0++; }
    }
    /* controller 1: keeps churning (and serving) from a later start */
    int n1 = 0;
    plan_add(p, "HOLD", 2, (int64_t)1, (int64_t)(3 + vrng_below(r, 12))); n1++;
    while (n1 < MAXSTEPS - 3) {
        plan_add(p, "PRIO", 3, (int64_t)1, WAITER(), NEWPRIO()); n1++;
        if (vrng_chance(r, 1, 2)) { plan_add(p, "HOLD", 2, (int64_t)1, (int64_t)vrng_below(r, 4)); n1++; }
        if (cls >= 2 && vrng_chance(r, 1, 3)) {
            if (cls == 2) plan_add(p, "BPUT", 3, (int64_t)1, (int64_t)0, (int64_t)1);
            else if (cls == 3) plan_add(p, "BGET", 3, (int64_t)1, (int64_t)0, (int64_t)1);
            else if (cls == 4) plan_add(p, "QPUT", 3, (int64_t)1, (int64_t)0, (int64_t)0);
            else plan_add(p, "KPUT", 4, (int64_t)1, (int64_t)0, vrng_range(r, 0, 3), (int64_t)0);
            n1++;
            plan_add(p, "HOLD", 2, (int64_t)1, (int64_t)vrng_below(r, 2)); n1++;
        }
    }
    /* waiters: arrive early (the list builds up behind the occupant) or late (the list grows after priorities were churned) */
    for (int i = nctl; i < np; i++) {
        const int64_t I = i;
        const int rounds = vrng_chance(r, 1, 5) ? 2 : 1;
        plan_add(p, "HOLD", 2, I, vrng_chance(r, 1, 4) ? (int64_t)(8 + vrng_below(r, 10)) : (int64_t)(1 + vrng_below(r, 5)));
        for (int k = 0; k < rounds; k++) {
            switch (cls) {
                case 0: plan_add(p, "ACQ", 2, I, (int64_t)0); plan_add(p, "HOLD", 2, I, (int64_t)vrng_below(r, 3)); plan_add(p, "REL", 2, I, (int64_t)0); break;
                case 1: plan_add(p, "PACQ", 3, I, (int64_t)0, (int64_t)vrng_below(r, (uint64_t)cap)); plan_add(p, "HOLD", 2, I, (int64_t)vrng_below(r, 3)); plan_add(p, "PREL", 3, I, (int64_t)0, (int64_t)5); break;
                case 2: plan_add(p, "BGET", 3, I, (int64_t)0, (int64_t)(1 + vrng_below(r, 2))); break;
                case 3: plan_add(p, "BPUT", 3, I, (int64_t)0, (int64_t)(1 + vrng_below(r, 2))); break;
                case 4: plan_add(p, "QGET", 2, I, (int64_t)0); break;
                default: plan_add(p, "KGET", 2, I, (int64_t)0); break;
            }
            if (rounds == 2) plan_add(p, "HOLD", 2, I, (int64_t)vrng_below(r, 3));
        }
    }
#undef NEWPRIO
#undef WAITER
}

void procs_gen(plan *p, uint64_t seed, const char *cfg)
{
    vrng r; vrng_seed(&r, seed);
    if (cfg_int(cfg, "churn", 0)) { gen_churn(p, &r); return; }
    const bool all = cfg_has(cfg, "mix", "all") || !strstr(cfg, "mix=");
    const bool m_wait = all || cfg_has(cfg, "mix", "wait");
    const bool m_res = all || cfg_has(cfg, "mix", "res");
    const bool m_pool = all || cfg_has(cfg, "mix", "pool");
    const bool m_buf = all || cfg_has(cfg, "mix", "buf");
    const bool m_oq = all || cfg_has(cfg, "mix", "oq");
    const bool m_pq = all || cfg_has(cfg, "mix", "pq");
    const bool m_cond = all || cfg_has(cfg, "mix", "cond");
    const int faults = cfg_int(cfg, "faults", 1);
    const bool crowd = cfg_int(cfg, "crowd", 0) != 0;
    const bool rec = cfg_int(cfg, "rec", 0) != 0 || (all && vrng_chance(&r, 1, 3));
    const bool storm = cfg_int(cfg, "storm", 0) != 0;
    const bool huge = cfg_int(cfg, "huge", 0) != 0;

    const int tmode = storm ? 3 : (int)vrng_below(&r, 8) < 6 ? 0 : (int)vrng_below(&r, 3);
    const int pmode = (int)vrng_below(&r, 3);
    int np = crowd ? 18 + (int)vrng_below(&r, 19) : 2 + (int)vrng_below(&r, 7);
    if (!crowd && vrng_chance(&r, 1, 12)) np = 9 + (int)vrng_below(&r, 6);
    /* objects: in "all" mode a swarm subset */
    int nres = m_res ? 1 + (int)vrng_below(&r, crowd ? 1 : 2) : 0;
    int npool = m_pool ? 1 + (int)vrng_below(&r, crowd ? 1 : 2) : 0;
    int nbuf = m_buf ? 1 + (int)vrng_below(&r, crowd ? 1 : 2) : 0;
    int noq = m_oq ? 1 + (int)vrng_below(&r, crowd ? 1 : 2) : 0;
    int npq = m_pq ? 1 + (int)vrng_below(&r, crowd ? 1 : 2) : 0;
    int ncond = m_cond ? 1 + (int)vrng_below(&r, 2) : 0;
    if (all) {
        /* keep 1-3 object classes per run so that interactions stay dense */
        int keep = 1 + (int)vrng_below(&r, 3);
        int cls[6] = { 0, 1, 2, 3, 4, 5 };
        for (int i = 5; i > 0; i--) { const int j = (int)vrng_below(&r, (uint64_t)i + 1); const int t = cls[i]; cls[i] = cls[j]; cls[j] = t; }
        bool on[6] = { false, false, false, false, false, false };
        for (int i = 0; i < keep; i++) on[cls[i]] = true;
        if (!on[0]) nres = 0;
        if (!on[1]) npool = 0;
        if (!on[2]) nbuf = 0;
        if (!on[3]) noq = 0;
        if (!on[4]) npq = 0;
        if (!on[5]) ncond = 0;
    }
    if (ncond > 0 && nres == 0 && npool == 0 && nbuf == 0 && noq == 0 && vrng_chance(&r, 3, 4)) {   /* something to observe */
        switch (vrng_below(&r, 5)) { case 0: case 1: nres = 1; break; case 2: npool = 1; break; case 3: nbuf = 1; break; default: noq = 1; break; }
    }
    static const int64_t starts[] = { 0, 0, 0, 0, -8, 40 };
    plan_add(p, "CFG", 8, (int64_t)(np - 1), (int64_t)nres, (int64_t)npool, (int64_t)nbuf, (int64_t)noq, (int64_t)npq, (int64_t)ncond, starts[vrng_below(&r, 6)]);

    /* address order: a random permutation of arena slots */
    int slot[MAXP];
    for (int i = 0; i < MAXP; i++) slot[i] = i;
    if (vrng_chance(&r, 2, 3)) for (int i = MAXP - 1; i > 0; i--) { const int j = (int)vrng_below(&r, (uint64_t)i + 1); const int t = slot[i]; slot[i] = slot[j]; slot[j] = t; }
    int64_t prio[MAXP];
    for (int i = 0; i < np; i++) {
        prio[i] = g_prio(&r, pmode);
        int64_t sd = 0;
        if (vrng_chance(&r, 1, 6)) sd = g_dt(&r, tmode); else if (vrng_chance(&r, 1, 14)) sd = -1;
        plan_add(p, "P", 4, (int64_t)i, (int64_t)slot[i], prio[i], sd);
    }
    for (int k = 0; k < npool; k++) plan_add(p, "CAP", 3, (int64_t)1, (int64_t)k, (int64_t)(1 + vrng_below(&r, 6)));
    for (int k = 0; k < nbuf; k++) plan_add(p, "CAP", 3, (int64_t)2, (int64_t)k, (huge || vrng_chance(&r, 1, 6)) ? (int64_t)0 : (int64_t)(1 + vrng_below(&r, 8)));
    for (int k = 0; k < noq; k++) plan_add(p, "CAP", 3, (int64_t)3, (int64_t)k, vrng_chance(&r, 1, 6) ? (int64_t)0 : (int64_t)(1 + vrng_below(&r, 3)));
    for (int k = 0; k < npq; k++) plan_add(p, "CAP", 3, (int64_t)4, (int64_t)k, vrng_chance(&r, 1, 6) ? (int64_t)0 : (int64_t)(1 + vrng_below(&r, 3)));
    /* guard indices follow world_build order: res, pool, buf f/r, oq f/r, pq f/r, cond */
    const int g_res0 = 0, g_pool0 = nres, g_buf0 = nres + npool;
    for (int c = 0; c < ncond; c++) {
        if (nres) plan_add(p, "SUB", 3, (int64_t)c, (int64_t)(g_res0 + (int)vrng_below(&r, (uint64_t)nres)), (int64_t)vrng_below(&r, 2));
        if (npool && vrng_chance(&r, 2, 3)) plan_add(p, "SUB", 3, (int64_t)c, (int64_t)(g_pool0 + (int)vrng_below(&r, (uint64_t)npool)), (int64_t)vrng_below(&r, 2));
        if (nbuf && vrng_chance(&r, 2, 3)) plan_add(p, "SUB", 3, (int64_t)c, (int64_t)(g_buf0 + 2 * (int)vrng_below(&r, (uint64_t)nbuf)), (int64_t)vrng_below(&r, 2));
        if (nbuf && vrng_chance(&r, 1, 2)) plan_add(p, "SUB", 3, (int64_t)c, (int64_t)(g_buf0 + 2 * (int)vrng_below(&r, (uint64_t)nbuf) + 1), (int64_t)vrng_below(&r, 2));
        if (noq && vrng_chance(&r, 2, 3)) plan_add(p, "SUB", 3, (int64_t)c, (int64_t)(g_buf0 + 2 * nbuf + 2 * (int)vrng_below(&r, (uint64_t)noq)), (int64_t)vrng_below(&r, 2));
    }
    const int nhev = m_wait ? (int)vrng_below(&r, 4) : 0;
    for (int e = 0; e < nhev; e++) plan_add(p, "HEV", 4, (int64_t)e, g_dt(&r, tmode) + (int64_t)(4 * vrng_below(&r, 3)), g_prio(&r, pmode), vrng_chance(&r, 1, 3) ? (int64_t)(1 + vrng_below(&r, (uint64_t)np)) : (int64_t)0);

    /* op table */
    opw tab[64]; int nt = 0;
#define ADD(o, w_, k) do { if ((w_) > 0) { tab[nt].op = o; tab[nt].w = (w_); tab[nt].kind = k; nt++; } } while (0)
    const int wf = faults == 0 ? 0 : faults == 1 ? 1 : 3;
    ADD("HOLD", 22, K_HOLD);
    ADD("TADD", m_wait ? 8 : 5, K_TADD); ADD("TSET", 2, K_TSET); ADD("TCANCEL", 2, K_TCANCEL); ADD("TCLEAR", 1, K_TCLEAR);
    ADD("YIELD", m_wait ? 3 : 1, K_YIELD); ADD("RESUME", m_wait ? 3 : 1, K_RESUME);
    ADD("INTR", 4 * wf, K_INTR); ADD("STOP", 2 * wf, K_STOP); ADD("PRIO", 3 * wf + (pmode ? 2 : 0), K_PRIO);
    ADD("START", storm ? 9 : 1 * wf, K_START); ADD("EXIT", storm ? 3 : 1, K_EXIT); ADD("STOPSELF", wf ? 1 : 0, K_STOPSELF);
    ADD("WAITP", storm ? 16 : m_wait ? 7 : 2, K_WAITP);
    ADD("WAITT", m_wait ? 4 : 1, K_WAITT);
    if (nhev) { ADD("WAITE", 5, K_WAITE); ADD("SCHEV", 2, K_SCHEV); ADD("CANEV", wf, K_CANEV); }
    if (nres) { ADD("ACQ", 14, K_ACQ); ADD("REL", 10, K_REL); ADD("PRE", 4 * (wf ? wf : 1), K_PRE); ADD("BLOCKRES", 10, K_BLOCK_RES); }
    if (npool) { ADD("PACQ", 14, K_PACQ); ADD("PREL", 10, K_PREL); ADD("PPRE", 5 * (wf ? wf : 1), K_PPRE); ADD("BLOCKPOOL", 8, K_BLOCK_POOL); }
    if (nbuf) { ADD("BPUT", 16, K_BPUT); ADD("BGET", 16, K_BGET); }
    if (noq) { ADD("QPUT", 14, K_QPUT); ADD("QGET", 14, K_QGET); }
    if (npq) { ADD("KPUT", 14, K_KPUT); ADD("KGET", 13, K_KGET); ADD("KCAN", 3, K_KCAN); ADD("KREP", 3, K_KREP); }
    if (ncond) { ADD("CWAIT", 14, K_CWAIT); ADD("CSIG", 5, K_CSIG); ADD("SETVAR", 9, K_SETVAR); ADD("CCAN", wf, K_CCAN); ADD("CREM", wf ? 1 : 0, K_CREM); }
    if (ncond && (nres + npool + nbuf + noq + npq)) ADD("OBS", 3, K_OBS);
    if (nres + npool + nbuf + noq + npq) { ADD("GCAN", wf, K_GCAN); ADD("GREM", wf ? 1 : 0, K_GREM); }
    if (rec) { ADD("RECON", 3, K_RECON); ADD("RECOFF", 2, K_RECOFF); }
    ADD("REPORT", rec ? 2 : 1, K_REPORT);
    int wsum = 0; for (int i = 0; i < nt; i++) wsum += tab[i].w;

    /* storm template, in half of the storm runs: a process that ends, is restarted and awaited again within one instant, while an
     * earlier waiter with a timer falling on that instant is still around.  The priorities (random) decide who runs first. */
    int role_a = -1, role_w = -1, role_w2 = -1, role_x = -1; int64_t role_d = 1;
    if (storm && np >= 4 && vrng_chance(&r, 1, 2)) {
        int perm[MAXP]; for (int i = 0; i < np; i++) perm[i] = i;
        for (int i = np - 1; i > 0; i--) { const int j = (int)vrng_below(&r, (uint64_t)i + 1); const int t = perm[i]; perm[i] = perm[j]; perm[j] = t; }
        role_a = perm[0]; role_w = perm[1]; role_w2 = perm[2]; role_x = perm[3];
        role_d = vrng_chance(&r, 1, 2) ? 1 : 4;
    }
    int nsteps[MAXP];
    for (int i = 0; i < np; i++) {
        int ns = (crowd || storm) ? 2 + (int)vrng_below(&r, 5) : 2 + (int)vrng_below(&r, 11);
        int emitted = 0;
        const int64_t I = i;
        if (i == role_a) { plan_add(p, "HOLD", 2, I, role_d); emitted++; if (vrng_chance(&r, 1, 2)) ns = emitted; }
        if (i == role_w) { add_tm(p, &r, vrng_chance(&r, 1, 4) ? "TSET" : "TADD", I, role_d); plan_add(p, "WAITP", 2, I, (int64_t)role_a); plan_add(p, "HOLD", 2, I, (int64_t)4); emitted += 3; }
        if (i == role_x) { plan_add(p, "HOLD", 2, I, role_d); plan_add(p, "START", 2, I, (int64_t)role_a); emitted += 2; }
        if (i == role_w2) { plan_add(p, "HOLD", 2, I, role_d); if (vrng_chance(&r, 1, 2)) { plan_add(p, "HOLD", 2, I, (int64_t)0); emitted++; } plan_add(p, "WAITP", 2, I, (int64_t)role_a); emitted += 2; }
        if (rec && i == 0) {
            /* recording windows usually open early */
            const int kinds[5] = { nres, npool, nbuf, noq, npq };
            for (int k = 0; k < 5; k++) if (kinds[k] && vrng_chance(&r, 3, 4)) { plan_add(p, "RECON", 3, I, (int64_t)k, (int64_t)vrng_below(&r, (uint64_t)kinds[k])); emitted++; }
        }
        while (emitted < ns && emitted < MAXSTEPS - 4) {
            int pick = (int)vrng_below(&r, (uint64_t)wsum), k = 0;
            while (pick >= tab[k].w) { pick -= tab[k].w; k++; }
            const int64_t j = (int64_t)vrng_below(&r, (uint64_t)np);
            switch (tab[k].kind) {
                case K_HOLD: plan_add(p, "HOLD", 2, I, g_dt(&r, tmode)); break;
                case K_TADD: add_tm(p, &r, "TADD", I, g_dt(&r, tmode)); break;
                case K_TSET: add_tm(p, &r, "TSET", I, g_dt(&r, tmode)); break;
                case K_TCANCEL: plan_add(p, "TCANCEL", 2, I, (int64_t)vrng_below(&r, 4)); break;
                case K_TCLEAR: plan_add(p, "TCLEAR", 1, I); break;
                case K_YIELD: if (vrng_chance(&r, 2, 3)) { add_tm(p, &r, "TADD", I, g_dt(&r, tmode)); emitted++; } plan_add(p, "YIELD", 1, I); break;
                case K_RESUME: plan_add(p, "RESUME", 2, I, j); break;
                case K_INTR: plan_add(p, "INTR", 3, I, j, vrng_chance(&r, 1, 2) ? prio[j] + vrng_range(&r, -1, 1) : g_prio(&r, 2)); break;
                case K_STOP: plan_add(p, "STOP", 2, I, j); break;
                case K_PRIO: plan_add(p, "PRIO", 3, I, vrng_chance(&r, 1, 3) ? I : j, g_prio(&r, pmode ? pmode : 1)); break;
                case K_START: plan_add(p, "START", 2, I, j); break;
                case K_EXIT: plan_add(p, "EXIT", 1, I); emitted = ns; break;
                case K_STOPSELF: plan_add(p, "STOPSELF", 1, I); emitted = ns; break;
                case K_WAITP: plan_add(p, "WAITP", 2, I, j); break;
                case K_WAITT: plan_add(p, "WAITT", 3, I, j, (int64_t)vrng_below(&r, 4)); break;
                case K_WAITE: plan_add(p, "WAITE", 2, I, (int64_t)vrng_below(&r, (uint64_t)nhev)); break;
                case K_SCHEV: plan_add(p, "SCHEV", 5, I, (int64_t)vrng_below(&r, (uint64_t)nhev), g_dt(&r, tmode), g_prio(&r, pmode), vrng_chance(&r, 1, 3) ? (int64_t)(1 + vrng_below(&r, (uint64_t)np)) : (int64_t)0); break;
                case K_CANEV: plan_add(p, "CANEV", 2, I, (int64_t)vrng_below(&r, (uint64_t)nhev)); break;
                case K_ACQ: plan_add(p, "ACQ", 2, I, (int64_t)vrng_below(&r, (uint64_t)nres)); break;
                case K_REL: plan_add(p, "REL", 2, I, (int64_t)vrng_below(&r, (uint64_t)nres)); break;
                case K_PRE: plan_add(p, "PRE", 2, I, (int64_t)vrng_below(&r, (uint64_t)nres)); break;
                case K_BLOCK_RES: {
                    /* the canonical acquire - hold - release block, sometimes re-acquiring at once */
                    const int64_t rr = (int64_t)vrng_below(&r, (uint64_t)nres);
                    if (vrng_chance(&r, 1, 3)) { add_tm(p, &r, "TADD", I, g_dt(&r, tmode)); emitted++; }
                    plan_add(p, vrng_chance(&r, 1, 5) ? "PRE" : "ACQ", 2, I, rr);
                    plan_add(p, "HOLD", 2, I, g_dt(&r, tmode));
                    plan_add(p, "REL", 2, I, rr);
                    emitted += 2;
                    if (vrng_chance(&r, 1, 2)) { plan_add(p, "ACQ", 2, I, rr); plan_add(p, "HOLD", 2, I, g_dt(&r, tmode)); plan_add(p, "REL", 2, I, rr); emitted += 3; }
                    break; }
                case K_PACQ: plan_add(p, "PACQ", 3, I, (int64_t)vrng_below(&r, (uint64_t)npool), (int64_t)vrng_below(&r, 6)); break;
                case K_PPRE: plan_add(p, "PPRE", 3, I, (int64_t)vrng_below(&r, (uint64_t)npool), (int64_t)vrng_below(&r, 6)); break;
                case K_PREL: plan_add(p, "PREL", 3, I, (int64_t)vrng_below(&r, (uint64_t)npool), (int64_t)vrng_below(&r, 6)); break;
                case K_BLOCK_POOL: {
                    const int64_t pp = (int64_t)vrng_below(&r, (uint64_t)npool);
                    if (vrng_chance(&r, 1, 3)) { add_tm(p, &r, "TADD", I, g_dt(&r, tmode)); emitted++; }
                    plan_add(p, vrng_chance(&r, 1, 4) ? "PPRE" : "PACQ", 3, I, pp, (int64_t)vrng_below(&r, 6));
                    plan_add(p, "HOLD", 2, I, g_dt(&r, tmode));
                    if (vrng_chance(&r, 1, 2)) { plan_add(p, "PACQ", 3, I, pp, (int64_t)vrng_below(&r, 6)); emitted++; }
                    plan_add(p, "PREL", 3, I, pp, (int64_t)(vrng_chance(&r, 1, 2) ? 5 : vrng_below(&r, 6)));
                    emitted += 2;
                    break; }
                case K_BPUT: plan_add(p, "BPUT", 3, I, (int64_t)vrng_below(&r, (uint64_t)nbuf), huge && vrng_chance(&r, 2, 3) ? (int64_t)(101 + vrng_below(&r, 7)) : vrng_chance(&r, 1, 14) ? (int64_t)(100 + vrng_below(&r, 4)) : (int64_t)vrng_below(&r, 6)); break;   /* 0..5: a put of nothing is a put */
                case K_BGET: plan_add(p, "BGET", 3, I, (int64_t)vrng_below(&r, (uint64_t)nbuf), huge && vrng_chance(&r, 2, 3) ? (int64_t)(101 + vrng_below(&r, 7)) : vrng_chance(&r, 1, 14) ? (int64_t)(100 + vrng_below(&r, 4)) : (int64_t)vrng_below(&r, 6)); break;
                case K_QPUT: plan_add(p, "QPUT", 3, I, (int64_t)vrng_below(&r, (uint64_t)noq), vrng_chance(&r, 1, 10) ? (int64_t)(1 + vrng_below(&r, 2)) : (int64_t)0); break;
                case K_QGET: plan_add(p, "QGET", 2, I, (int64_t)vrng_below(&r, (uint64_t)noq)); break;
                case K_KPUT: plan_add(p, "KPUT", 4, I, (int64_t)vrng_below(&r, (uint64_t)npq), g_prio(&r, pmode ? pmode : 1), (int64_t)(vrng_chance(&r, 1, 8) ? 1 : 0)); break;
                case K_KGET: plan_add(p, "KGET", 2, I, (int64_t)vrng_below(&r, (uint64_t)npq)); break;
                case K_KCAN: plan_add(p, "KCAN", 3, I, (int64_t)vrng_below(&r, (uint64_t)npq), (int64_t)vrng_below(&r, 16)); break;
                case K_KREP: plan_add(p, "KREP", 4, I, (int64_t)vrng_below(&r, (uint64_t)npq), (int64_t)vrng_below(&r, 8), g_prio(&r, pmode ? pmode : 1)); break;
                case K_CWAIT: {
                    int kind = PR_VAR_GE;
                    const unsigned z = (unsigned)vrng_below(&r, 10);
                    if (z < 4) kind = PR_VAR_GE; else if (z < 6 && nres) kind = PR_RES_FREE; else if (z < 7 && npool) kind = PR_POOL_AVAIL_GE;
                    else if (z < 8 && nbuf) kind = vrng_chance(&r, 1, 2) ? PR_BUF_LEVEL_GE : PR_BUF_SPACE_GE; else if (z < 9) kind = PR_FALSE; else kind = PR_VAR_GE;
                    if (noq && vrng_chance(&r, 1, 5)) kind = PR_OQ_LEN_GE;
                    plan_add(p, "CWAIT", 5, I, (int64_t)vrng_below(&r, (uint64_t)ncond), (int64_t)kind, (int64_t)vrng_below(&r, 3), (int64_t)(1 + vrng_below(&r, 3)));
                    break; }
                case K_CSIG: plan_add(p, "CSIG", 2, I, (int64_t)vrng_below(&r, (uint64_t)ncond)); break;
                case K_SETVAR: plan_add(p, "SETVAR", 3, I, (int64_t)vrng_below(&r, 3), (int64_t)vrng_below(&r, 5)); break;
                case K_CCAN: plan_add(p, "CCAN", 3, I, (int64_t)vrng_below(&r, (uint64_t)ncond), j); break;
                case K_CREM: plan_add(p, "CREM", 3, I, (int64_t)vrng_below(&r, (uint64_t)ncond), j); break;
                case K_GCAN: plan_add(p, "GCAN", 3, I, (int64_t)vrng_below(&r, 12), j); break;
                case K_GREM: plan_add(p, "GREM", 3, I, (int64_t)vrng_below(&r, 12), j); break;
                case K_RECON: plan_add(p, "RECON", 3, I, (int64_t)vrng_below(&r, 5), (int64_t)vrng_below(&r, 2)); break;
                case K_RECOFF: plan_add(p, "RECOFF", 3, I, (int64_t)vrng_below(&r, 5), (int64_t)vrng_below(&r, 2)); break;
                case K_OBS: plan_add(p, "OBS", 4, I, (int64_t)vrng_below(&r, (uint64_t)ncond), (int64_t)vrng_below(&r, 12), (int64_t)vrng_below(&r, 4)); break;
                case K_REPORT: plan_add(p, "REPORT", 3, I, (int64_t)vrng_below(&r, 6), (int64_t)vrng_below(&r, 2)); break;
                default: break;
            }
            emitted++;
        }
        nsteps[i] = emitted;
    }
    /* growth templates for the tag pools and history arrays (rare: they are expensive) */
    if (cfg_int(cfg, "big", 0) || vrng_chance(&r, 1, 400)) {
        const int64_t who = (int64_t)vrng_below(&r, (uint64_t)np);
        if (vrng_chance(&r, 1, 2)) plan_add(p, "TBURST", 2, who, (int64_t)(8000 + vrng_below(&r, 1500)));
        if (noq > 0 && vrng_chance(&r, 1, 2)) plan_add(p, "QBURST", 3, who, (int64_t)vrng_below(&r, (uint64_t)noq), (int64_t)(16000 + vrng_below(&r, 1500)));
    }
    /* attached faults: aimed at a victim's in-flight operation, event priority just around the victim's */
    if (faults > 0) {
        const int nf = (int)vrng_below(&r, faults == 1 ? 4 : 10) + (faults == 2 ? 2 : 0);
        static const int kinds[] = { 1, 1, 1, 2, 3, 4, 5, 6, 6, 7, 8, 9, 10, 1, 2, 3, 11, 11, 12, 13 };
        for (int f = 0; f < nf; f++) {
            const int v = (int)vrng_below(&r, (uint64_t)np);
            const int step = (int)vrng_below(&r, (uint64_t)(nsteps[v] > 0 ? nsteps[v] : 1));
            const int kind = kinds[vrng_below(&r, sizeof kinds / sizeof kinds[0])];
            int64_t pr = prio[v] + vrng_range(&r, -1, 1);
            if (vrng_chance(&r, 1, 6)) pr = g_prio(&r, 2);
            int64_t arg = (kind == 1) ? pr : (kind == 6) ? g_prio(&r, pmode ? pmode : 1) : (int64_t)vrng_below(&r, 64);
            plan_add(p, "F", 6, (int64_t)v, (int64_t)step, g_dt(&r, tmode), pr, (int64_t)kind, arg);
        }
    }
}
