#!/usr/bin/env python3
"""triage.py <engine> <n> [cfg] [--only P] [--variant v] [--max k] - run n seeds, group by signature, minimise the first of each, print the plans"""
import sys, os, subprocess, re
HERE = os.path.dirname(os.path.dirname(os.path.abspath(__file__)))
sys.path.insert(0, os.path.join(HERE, "checks"))
import run as R
a = sys.argv[1:]
engine, n = a[0], int(a[1])
cfg = a[2] if len(a) > 2 and not a[2].startswith("--") else ""
only = a[a.index("--only") + 1] if "--only" in a else None
variant = a[a.index("--variant") + 1] if "--variant" in a else "rel"
maxk = int(a[a.index("--max") + 1]) if "--max" in a else 6
exe = R.build(variant)
job = dict(engine=engine, cfg=cfg, variant=variant, only=only)
res = R.Result()
import time
R.run_chunks(exe, job, 777, n, res, time.time() + 3600)
groups = {}
for v in res.viol: groups.setdefault((v["prop"], v["sig"]), []).append(v)
for c in res.crashes: groups.setdefault(("C10", c["sig"]), []).append(dict(seed=c["seed"], prop="C10", sig=c["sig"], msg=c["msg"]))
print("runs", res.runs, "groups", len(groups))
for (p, s), vs in sorted(groups.items(), key=lambda kv: -len(kv[1])):
    print("=" * 100); print(len(vs), p, s, "::", vs[0]["msg"][:200])
shown = 0
for (p, s), vs in sorted(groups.items(), key=lambda kv: -len(kv[1])):
    if shown >= maxk: break
    shown += 1
    seed = vs[0]["seed"]
    if seed is None: continue
    text = R.gen_plan(exe, job, seed)
    m, runs = R.minimise(exe, text, p, s, budget=250)
    print("#" * 100); print(p, s, "seed", seed, "minimised in", runs, "runs:"); print(m)
