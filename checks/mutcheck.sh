#!/bin/bash
# mutcheck.sh <patch-file|-R:commit> <property>... -- apply a change to a scratch worktree of /repo,
# run the registered quick checks of the given properties against it (evidence/replays go to /tmp), clean up.
set -uo pipefail
CHANGE="$1"; shift
HERE="$(cd "$(dirname "$0")/.." && pwd)"      # the copy of /verif this script belongs to (a vp-run snapshot stays self-contained)
W=/tmp/mcwt.$$; B=/tmp/mcbuild.$$; O=/tmp/mcout.$$
git -C /repo worktree add -q "$W" HEAD
trap 'git -C /repo worktree remove --force "$W" >/dev/null 2>&1; rm -rf "$B" "$O"' EXIT
case "$CHANGE" in
  -R:*) git -C "$W" show "${CHANGE#-R:}" | git -C "$W" apply -R || { echo "cannot revert ${CHANGE#-R:}"; exit 3; } ;;
  *) git -C "$W" apply "$CHANGE" || { echo "patch does not apply"; exit 3; } ;;
esac
mkdir -p "$O"
for P in "$@"; do
  REPO="$W" VERIF_BUILD_ROOT="$B" VERIF_OUT_ROOT="$O" VERIF_WALL_FACTOR="${VERIF_WALL_FACTOR:-4}" python3 "$HERE/checks/run.py" check "$P" --tier quick 2>&1 | grep -a 'VIOLATION\|KNOWN-FINDING\|MACHINERY\|tier=' | cut -c1-330
done
