#!/usr/bin/env python3
"""run.py - driver for the cimba deterministic-simulation checks.

  run.py check <property> [--tier quick|thorough]     the registered check (exit 0 / 1 / 2)
  run.py replay <planfile> [--variant rel|san] [--trace]
  run.py selftest-det [--n N]                          determinism proof over all engines
  run.py selftest-seeded [ids]                         sensitivity: every seeded/<id>/patch.diff must be caught by the checks its meta.json names
  run.py minimise <planfile> <prop> <sig>              shrink a plan keeping the signature

Every choice derives from VERIF_SEED (default 20260926).  Wall clock is read only here, for
budgets and for the evidence file, never inside a simulated run.
"""
import json, os, re, subprocess, sys, time, hashlib, tempfile, shutil, threading, queue

HERE = os.path.dirname(os.path.dirname(os.path.abspath(__file__)))
sys.path.insert(0, os.path.join(HERE, "checks"))
from jobs import JOBS, ENGINE_INFO   # noqa: E402

NCPU = min(16, os.cpu_count() or 1)
OUT_ROOT = os.environ.get("VERIF_OUT_ROOT", HERE)       # scratch runs (mutants) write elsewhere
REPLAYS = os.path.join(OUT_ROOT, "replays")
EVID = os.path.join(OUT_ROOT, "evidence")
KNOWN = os.path.join(HERE, "known_findings.txt")


def sh(cmd, **kw):
    return subprocess.run(cmd, stdout=subprocess.PIPE, stderr=subprocess.PIPE, text=True, errors="replace", **kw)


VG_ENV = dict(os.environ, VERIF_NOASLR_DONE="1")      # the harness must not re-exec itself under valgrind


def wrap(job, cmd):
    """valgrind slice: the rel binary under memcheck (uninitialised-value use, which ASan cannot see)"""
    if job and job.get("valgrind"):
        return ["valgrind", "-q", "--error-exitcode=99"] + cmd, dict(env=VG_ENV)
    return cmd, {}


def build(variant):
    r = sh([os.path.join(HERE, "build.sh"), variant])
    if r.returncode != 0:
        sys.stdout.write(r.stdout[-3000:] + r.stderr[-6000:])
        print("MACHINERY-ERROR: build of variant %s failed" % variant)
        sys.exit(2)
    return os.path.join(os.environ.get("VERIF_BUILD_ROOT", os.path.join(HERE, "build")), variant, "cimsim")


# ---------------------------------------------------------------- crash classification
def crash_sig(stderr, rc, crashline):
    m = re.search(r'\t(\w+) \((\d+)\):\s+Fatal: Assert "(.*?)" failed, source file (\S+?),', stderr)
    if m:
        return "abort/%s/%s" % (m.group(4), m.group(1)), 'assert "%s" failed in %s (%s:%s)' % (m.group(3), m.group(1), m.group(4), m.group(2))
    m = re.search(r"ERROR: AddressSanitizer: (\S+)", stderr)
    if m:
        kind = m.group(1)
        fm = re.search(r"#\d+ 0x[0-9a-f]+ in (c[mi][bi]_?\w+|cimba_\w+|hash_\w+|heap_\w+|\w+) /repo/", stderr)
        fn = fm.group(1) if fm else "?"
        return "asan/%s/%s" % (kind, fn), "AddressSanitizer %s in %s" % (kind, fn)
    m = re.search(r"==\d+== (Conditional jump or move depends on uninitialised value|Use of uninitialised value|Invalid read|Invalid write|Invalid free|Mismatched free|Syscall param \S+ points to uninitialised|Source and destination overlap)", stderr)
    if m:
        fm = re.search(r"==\d+==\s+(?:at|by) 0x[0-9A-F]+: (c[mi][bi]_\w+|cimba_\w+) \(", stderr)
        kind = m.group(1).split(" ")[0].lower() + "-" + (m.group(1).split(" ")[1].lower() if " " in m.group(1) else "")
        return "valgrind/%s/%s" % (kind, fm.group(1) if fm else "?"), "valgrind: %s in %s" % (m.group(1), fm.group(1) if fm else "?")
    m = re.search(r"(\S+?):(\d+):\d+: runtime error: (.*)", stderr)
    if m:
        return "ubsan/%s" % os.path.basename(m.group(1)), "UBSan %s:%s %s" % (os.path.basename(m.group(1)), m.group(2), m.group(3)[:120])
    m = re.search(r"signal (\d+)", crashline or "")
    if m:
        return "signal/%s" % m.group(1), "died with signal %s" % m.group(1)
    return "exit/%d" % rc, "worker exited with status %d" % rc


# ---------------------------------------------------------------- running workers
SWEEPMAP = {}     # run seed -> (base seed, placement index), filled from the workers' SW lines


class Result:
    def __init__(self):
        self.runs = 0
        self.hashes_nontrivial = set()
        self.events = 0
        self.simtime = 0.0
        self.faults = 0
        self.budget = 0
        self.viol = []          # dicts: seed, prop, sig, msg, job
        self.crashes = []       # dicts: seed, sig, msg, job
        self.ctr = {}
        self.samples = []
        self.hash_by_seed = {}
        self.lock = threading.Lock()


def parse_stream(out):
    """returns list of per-seed records and counters, plus the seed that was running at the end (if any)"""
    recs, ctr, cur, crashline, done = [], {}, None, None, False
    viols = []
    for line in out.splitlines():
        if line.startswith("SW "):
            f = line.split(); SWEEPMAP[int(f[1])] = (int(f[2]), int(f[3]))
        elif line.startswith("START "):
            cur = int(line.split()[1]); viols = []
        elif line.startswith("V "):
            parts = line.split(" ", 4)
            msg = parts[4] if len(parts) > 4 else ""
            msg = msg[2:] if msg.startswith("| ") else msg
            viols.append((parts[2], parts[3], msg))
        elif line.startswith("END "):
            f = line.split()
            recs.append(dict(seed=int(f[1]), hash=f[2], events=int(f[3]), simtime=float(f[4]), faults=int(f[5]),
                             nontrivial=int(f[6]), budget=int(f[7]), viols=viols))
            cur = None
        elif line.startswith("CRASH "):
            crashline = line
        elif line.startswith("CTR"):
            for kv in line.split()[1:]:
                k, v = kv.rsplit("=", 1)
                ctr[k] = ctr.get(k, 0) + int(v)
        elif line.startswith("DONE"):
            done = True
    return recs, ctr, cur, crashline, done


def run_chunks(exe, job, base, total, res, deadline, chunk=None):
    """fan seeds mix64(base,i), i in [0,total), over NCPU worker processes"""
    if chunk is None:
        chunk = max(20, min(2000, total // (NCPU * 4) or 1))
        if job.get("sweep"): chunk = max(2, min(50, total // (NCPU * 4) or 1))
    q = queue.Queue()
    for i0 in range(0, total, chunk):
        q.put((i0, min(total, i0 + chunk)))

    def worker():
        while True:
            try:
                i0, i1 = q.get_nowait()
            except queue.Empty:
                return
            while i0 < i1:
                if time.time() > deadline:
                    return
                cmd = [exe, "sweep" if job.get("sweep") else "run", job["engine"], str(base), str(i0), str(i1), "--cfg", job.get("cfg", "")]
                if job.get("only"):
                    cmd += ["--only", job["only"]]
                try:
                    cmd, kw = wrap(job, cmd)
                    r = sh(cmd, timeout=job.get("chunk_timeout", 600), **kw)
                    out, err, rc = r.stdout, r.stderr, r.returncode
                except subprocess.TimeoutExpired as e:
                    out = (e.stdout or b"").decode(errors="replace") if isinstance(e.stdout, bytes) else (e.stdout or "")
                    err, rc = "timeout", -9
                recs, ctr, cur, crashline, done = parse_stream(out)
                with res.lock:
                    for rec in recs:
                        res.runs += 1
                        res.events += rec["events"]; res.simtime += rec["simtime"]; res.faults += rec["faults"]
                        res.budget += rec["budget"]
                        if rec["nontrivial"]:
                            res.hashes_nontrivial.add(rec["hash"])
                        for (prop, sig, msg) in rec["viols"]:
                            res.viol.append(dict(seed=rec["seed"], prop=prop, sig=sig, msg=msg, job=job))
                    for k, v in ctr.items():
                        res.ctr[k] = res.ctr.get(k, 0) + v
                    if not done:
                        # the worker died while running seed `cur` (index i0 + len(recs))
                        sig, msg = crash_sig(err, rc, crashline)
                        if cur is None and rc == -9:
                            sig, msg = "timeout", "worker timed out"
                        res.crashes.append(dict(seed=cur, sig=sig, msg=msg, job=job, stderr=err[-2500:]))
                if done:
                    break
                if job.get("sweep"):
                    # a placement killed the worker: count completed base programs and skip the one in flight
                    nb = len(set(SWEEPMAP.get(r["seed"], (None, 0))[0] for r in recs))
                    i0 = i0 + max(1, nb)
                else:
                    i0 = i0 + len(recs) + 1      # skip the seed that killed the worker

    th = [threading.Thread(target=worker) for _ in range(NCPU)]
    for t in th: t.start()
    for t in th: t.join()


# ---------------------------------------------------------------- replay / gate / minimise
def gen_plan(exe, job, seed):
    if job.get("sweep"):
        if seed not in SWEEPMAP: return None
        b, k = SWEEPMAP[seed]
        r = sh([exe, "sweepgen", job["engine"], str(b), str(k), "--cfg", job.get("cfg", "")])
    else:
        r = sh([exe, "gen", job["engine"], str(seed), "--cfg", job.get("cfg", "")])
    if r.returncode != 0 or not r.stdout.startswith("PLAN"):
        return None
    return r.stdout


def replay_text(exe, text, only=None, trace=False, job=None):
    """run a plan text in a fresh process -> (set of (prop,sig), hash or None, crash (sig,msg) or None, stdout)"""
    with tempfile.NamedTemporaryFile("w", suffix=".plan", delete=False, dir="/dev/shm" if os.path.isdir("/dev/shm") else None) as f:
        f.write(text); path = f.name
    try:
        cmd = [exe, "replay", path]
        if only: cmd += ["--only", only]
        if trace: cmd += ["--trace"]
        try:
            cmd, kw = wrap(job, cmd)
            r = sh(cmd, timeout=300 if kw else 120, **kw)
            out, err, rc = r.stdout, r.stderr, r.returncode
        except subprocess.TimeoutExpired:
            return set(), None, ("timeout", "replay timed out"), ""
    finally:
        os.unlink(path)
    recs, ctr, cur, crashline, done = parse_stream(out)
    if not done or not recs:
        sig, msg = crash_sig(err, rc, crashline)
        return set(), None, (sig, msg), out + err[-2000:]
    rec = recs[0]
    return set((p, s) for (p, s, m) in rec["viols"]), rec["hash"], None, out


def has_sig(exe, text, prop, sig, job=None):
    is_crash_sig = sig.split("/")[0] in ("abort", "asan", "ubsan", "signal", "exit", "timeout", "valgrind")
    sigs, h, crash, _ = replay_text(exe, text, only=(job or {}).get("only") if is_crash_sig else prop, job=job)
    if crash is not None:
        return is_crash_sig and crash[0] == sig
    return (prop, sig) in sigs


def minimise(exe, text, prop, sig, budget=350, job=None):
    lines = text.rstrip("\n").split("\n")
    head, body = lines[0], lines[1:]
    runs = [0]

    def test(b):
        runs[0] += 1
        return has_sig(exe, "\n".join([head] + b) + "\n", prop, sig, job=job)

    # ddmin over lines
    n = 2
    while len(body) >= 2 and runs[0] < budget:
        size = max(1, len(body) // n)
        removed = False
        for start in range(0, len(body), size):
            cand = body[:start] + body[start + size:]
            if cand != body and test(cand):
                body = cand; n = max(n - 1, 2); removed = True
                break
            if runs[0] >= budget: break
        if not removed:
            if size == 1: break
            n = min(len(body), n * 2)
    # simplify numbers: try 0, then 1, then halves, per token (skipping the first arg: context/owner)
    for li in range(len(body)):
        if runs[0] >= budget: break
        toks = body[li].split()
        for ti in range(2, len(toks)):
            try: v = int(toks[ti])
            except ValueError: continue
            for nv in (0, 1, v // 2):
                if nv == v or abs(nv) >= abs(v): continue
                t2 = toks[:]; t2[ti] = str(nv)
                cand = body[:li] + [" ".join(t2)] + body[li + 1:]
                if runs[0] >= budget: break
                if test(cand):
                    body = cand; toks = t2; break
    return "\n".join([head] + body) + "\n", runs[0]


# ---------------------------------------------------------------- known findings
def load_known():
    known, fixed = {}, []
    if os.path.exists(KNOWN):
        for line in open(KNOWN):
            line = line.strip()
            m = re.match(r"known:\s+property=(C\d+)\s+sig=(\S+)\s+(.*)", line)
            if m: known[(m.group(1), m.group(2))] = m.group(3)
            m = re.match(r"fixed:\s+property=(C\d+)\s+(\S+)\s+(.*)", line)
            if m: fixed.append((m.group(1), m.group(2), m.group(3)))
    return known, fixed


# ---------------------------------------------------------------- the check
def check(prop, tier):
    t0 = time.time()
    base_seed = int(os.environ.get("VERIF_SEED", "20260926"))
    spec = JOBS[prop]
    exes = {}
    for v in sorted(set(j["variant"] for j in spec["jobs"])):
        exes[v] = build(v)
    known, _fixed = load_known()
    os.makedirs(REPLAYS, exist_ok=True)
    os.makedirs(EVID, exist_ok=True)
    for f in os.listdir(REPLAYS):
        if f.startswith(prop + "-"):
            os.unlink(os.path.join(REPLAYS, f))

    res_all = []
    # the wall budget caps the runs of a tier, not the build before them; VERIF_WALL_FACTOR stretches it (the sensitivity regression
    # runs many checks side by side on scratch builds and must not lose runs to a busy machine)
    wall_budget = (spec.get("wall_quick", 60) if tier == "quick" else spec.get("wall_thorough", 900)) * float(os.environ.get("VERIF_WALL_FACTOR", "1"))
    deadline = time.time() + wall_budget
    per_job = []
    for ji, job in enumerate(spec["jobs"]):
        n = job["n_quick"] if tier == "quick" else job["n_thorough"]
        if n <= 0: continue
        res = Result()
        jb = int(hashlib.sha256(("%d/%s/%d" % (base_seed, prop, ji)).encode()).hexdigest()[:15], 16)
        tj = time.time()
        run_chunks(exes[job["variant"]], job, jb, n, res, deadline)
        per_job.append(dict(engine=job["engine"], cfg=job.get("cfg", ""), variant=job["variant"], requested=n, mode="single-fault sweep (requested = base programs)" if job.get("sweep") else "random under valgrind memcheck" if job.get("valgrind") else "random",
                            runs=res.runs, wall_s=round(time.time() - tj, 2), crashes=len(res.crashes),
                            violations=len(res.viol), budget_capped=res.budget))
        res_all.append((job, res))

    # samples: two whole plans (one with trace) from the first job
    samples = []
    if res_all:
        job0 = res_all[0][0]
        jb0 = int(hashlib.sha256(("%d/%s/%d" % (base_seed, prop, 0)).encode()).hexdigest()[:15], 16)
        r = sh([exes[job0["variant"]], "one", job0["engine"], str(jb0 % (2**63)), "--cfg", job0.get("cfg", ""), "--plan", "--trace"], timeout=120)
        samples.append(dict(kind="plan+trace (seed %d)" % (jb0 % (2**63)), text=r.stdout.splitlines()[:120]))
        r = sh([exes[job0["variant"]], "gen", job0["engine"], str((jb0 + 1) % (2**63)), "--cfg", job0.get("cfg", "")], timeout=120)
        samples.append(dict(kind="plan (seed %d)" % ((jb0 + 1) % (2**63)), text=r.stdout.splitlines()[:80]))

    # collect distinct violation signatures for THIS property
    found = {}   # (prop, sig) -> (job, seed, msg, is_crash)
    other = {}
    for job, res in res_all:
        for v in res.viol:
            tgt = found if v["prop"] == prop else other
            tgt.setdefault((v["prop"], v["sig"]), (job, v["seed"], v["msg"], False))
        for c in res.crashes:
            if prop == "C10" or spec.get("crash_is_violation"):
                found.setdefault((prop, c["sig"]), (job, c["seed"], c["msg"] + " | " + c["stderr"][-600:].replace("\n", " / "), True))
            else:
                other.setdefault(("C10", c["sig"]), (job, c["seed"], c["msg"], True))

    n_viol, machinery_broken, lines_out = 0, False, []
    seen_sigs = set()
    for (p, sig), (job, seed, msg, is_crash) in sorted(found.items(), key=lambda kv: kv[0]):
        exe = exes[job["variant"]]
        if sum(1 for l in lines_out if l.startswith(("VIOLATION", "KNOWN-FINDING"))) >= 10 and (p, sig) not in known:
            # one broken mechanism can show under dozens of signatures; ten minimised replays are enough to act on
            more = sum(1 for k in found if k not in known) - 10
            lines_out.append("NOTE: %d further distinct signature(s) of %s were seen and not minimised, e.g. %s (seed %s)" % (more, prop, sig, seed))
            break
        if seed is None:
            lines_out.append("MACHINERY-ERROR: worker died outside a run (%s): %s" % (sig, msg)); machinery_broken = True; continue
        text = gen_plan(exe, job, seed)
        if text is None:
            lines_out.append("MACHINERY-ERROR: cannot regenerate plan for seed %d" % seed); machinery_broken = True; continue
        # gate: two fresh-process replays must reproduce the same signature (and hash, if the run completes)
        # a crash is replayed under the filter of the job that saw it: a run stops at its first recorded violation, so judging
        # more properties than the batch worker did can end the run before it reaches the crash
        r1 = replay_text(exe, text, only=job.get("only") if is_crash else p, job=job)
        r2 = replay_text(exe, text, only=job.get("only") if is_crash else p, job=job)
        ok1 = (r1[2] is not None and r1[2][0] == sig) if is_crash else ((p, sig) in r1[0])
        ok2 = (r2[2] is not None and r2[2][0] == sig) if is_crash else ((p, sig) in r2[0])
        if is_crash and not (ok1 and ok2) and job["variant"] == "rel" and not job.get("valgrind"):
            # a memory error on the release build shows up (or not) depending on the heap history of the worker; the
            # sanitizer build decides it deterministically: replay the same plan there and report what it says
            sexe = build("san")
            s1, s2 = replay_text(sexe, text, only=job.get("only")), replay_text(sexe, text, only=job.get("only"))
            if s1[2] is not None and s2[2] is not None and s1[2][0] == s2[2][0]:
                job = dict(job, variant="san"); exe = sexe
                sig, msg = s1[2][0], s1[2][1] + " (first seen as a non-reproducible %s on the release build)" % sig
                if (p, sig) in seen_sigs: continue
                ok1 = ok2 = True; r1, r2 = s1, s2
        if not is_crash and not (ok1 and ok2) and r1[0] == r2[0] and r1[1] == r2[1] and r1[1] is not None:
            # the worker that first saw it had run other plans before (state the library keeps across runs in one OS process is
            # itself a symptom).  What two fresh processes agree on is what gets reported: a violation of this property under
            # another signature is reported under that one; none at all is a machinery error, below.
            alt = sorted(s2 for (p2, s2) in r1[0] if p2 == p)
            if alt:
                msg = "%s (a fresh process shows this signature; a worker with earlier runs behind it showed %s: %s)" % (
                    next((m for (p2, s2, m) in parse_stream(r1[3])[0][0]["viols"] if p2 == p and s2 == alt[0]), ""), sig, msg[:120])
                sig = alt[0]
                if (p, sig) in seen_sigs or (p, sig) in found: continue
                ok1 = ok2 = True
        seen_sigs.add((p, sig))
        if not (ok1 and ok2 and r1[1] == r2[1]):
            lines_out.append("MACHINERY-ERROR: seed %d signature %s/%s did not reproduce in a fresh process (%s / %s)" % (seed, p, sig, r1[0] or r1[2], r2[0] or r2[2]))
            machinery_broken = True
            continue
        n_min = sum(1 for l in lines_out if l.startswith(("VIOLATION", "KNOWN-FINDING")))
        mtext, mruns = minimise(exe, text, p, sig, budget=(350 if n_min < 6 else 40) if not job.get("valgrind") else 60, job=job)
        # final fresh replay of the minimised plan
        if not has_sig(exe, mtext, p, sig, job=job):
            mtext = text
        path = os.path.join(REPLAYS, "%s-%d.plan" % (prop, seed))
        with open(path, "w") as f:
            f.write(mtext)
            f.write("# property=%s sig=%s variant=%s%s cfg=%s judged=%s\n# %s\n" % (p, sig, job["variant"], " (under valgrind)" if job.get("valgrind") else "", job.get("cfg", ""),
                                                                              (job.get("only") or "all") if is_crash else p, msg[:300]))
        if (p, sig) in known:
            lines_out.append("KNOWN-FINDING: property=%s sig=%s %s (replay=%s)" % (p, sig, known[(p, sig)], path))
        else:
            n_viol += 1
            lines_out.append("VIOLATION property=%s replay=%s sig=%s variant=%s :: %s" % (p, path, sig, job["variant"], msg[:300]))

    # evidence
    runs = sum(r.runs for _, r in res_all)
    distinct = set()
    ctr = {}
    for _, r in res_all:
        distinct |= r.hashes_nontrivial
        for k, v in r.ctr.items(): ctr[k] = ctr.get(k, 0) + v
    wall = time.time() - t0
    ev = dict(
        property_id=prop, tier=tier, seed=base_seed, level=spec["level"], wall_s=round(wall, 2), violations=n_viol,
        coverage=dict(
            evaluations=runs,
            known_findings_reported=[l.split(" (replay=")[0] for l in lines_out if l.startswith("KNOWN-FINDING")],
            distinct_nontrivial=len(distinct),
            rule=spec["rule"],
            samples=samples,
            runs_per_hour=int(runs / wall * 3600) if wall > 0 else 0,
            seeds_per_hour=int(runs / wall * 3600) if wall > 0 else 0,
            simulated_time_covered=sum(r.simtime for _, r in res_all),
            events_executed=sum(r.events for _, r in res_all),
            faults_landed=sum(r.faults for _, r in res_all),
            budget_capped_runs=sum(r.budget for _, r in res_all),
            counters=dict(sorted(ctr.items())),
            jobs=per_job,
            known_findings_seen=[l for l in lines_out if l.startswith("KNOWN-FINDING")],
            other_property_signatures_seen=sorted("%s/%s" % k for k in other.keys()),
            components=ENGINE_INFO,
            determinism_gate="every reported violation was replayed twice in fresh processes (same signature, same trace hash) before being reported",
        ),
        assumptions=spec.get("assumptions", []),
    )
    with open(os.path.join(EVID, "%s.json" % prop), "w") as f:
        json.dump(ev, f, indent=1)

    for l in lines_out: print(l)
    print("%s tier=%s runs=%d distinct_nontrivial=%d violations=%d wall=%.1fs" % (prop, tier, runs, len(distinct), n_viol, wall))
    if machinery_broken: return 2
    if runs == 0:
        print("MACHINERY-ERROR: no runs completed"); return 2
    return 1 if n_viol else 0


def selftest_det(n):
    """per engine and build variant: every seed's trace hash must be the same (a) in one long worker process,
    (b) in many short worker processes (other predecessors, other chunking, 16 at a time), (c) alone in a fresh process"""
    from concurrent.futures import ThreadPoolExecutor
    import random
    bad = 0
    seen = set()
    for variant in ("rel", "san"):
        exe = build(variant)
        alljobs = [j for prop, spec in sorted(JOBS.items()) for j in spec["jobs"] if not j.get("sweep") and not j.get("valgrind")]
        for job in alljobs:
            key = (job["engine"], job.get("cfg", ""), variant)
            if key in seen: continue
            seen.add(key)
            base = 4242
            nn = n if variant == "rel" else max(100, n // 4)
            if "big=1" in job.get("cfg", ""): nn = max(14, nn // 40)
            if "crowd=1" in job.get("cfg", "") or "churn=1" in job.get("cfg", ""): nn = max(50, nn // 4)

            def hashes(i0, i1):
                r = sh([exe, "run", job["engine"], str(base), str(i0), str(i1), "--cfg", job.get("cfg", "")])
                return {l.split()[1]: l.split()[2] for l in r.stdout.splitlines() if l.startswith("END ")}
            a = hashes(0, nn)
            b = {}
            with ThreadPoolExecutor(NCPU) as ex:
                for d in ex.map(lambda i0: hashes(i0, min(nn, i0 + 7)), range(0, nn, 7)): b.update(d)
            mism = sum(1 for k in a if b.get(k) != a[k]) + abs(len(a) - len(b))
            rnd = random.Random(1)
            fresh = 0
            for seed in rnd.sample(sorted(a), min(40, len(a))):
                r = sh([exe, "one", job["engine"], seed, "--cfg", job.get("cfg", "")])
                hh = [l.split()[2] for l in r.stdout.splitlines() if l.startswith("END ")]
                if not hh or hh[0] != a[seed]: fresh += 1
            print("det %s %-10s %-30s seeds=%d chunked-mismatches=%d fresh-process-mismatches=%d" % (variant, job["engine"], job.get("cfg", ""), len(a), mism, fresh))
            if mism or fresh or len(a) != nn: bad += 1
    print("determinism selftest:", "FAILED" if bad else "ok")
    return 2 if bad else 0


def selftest_seeded(ids):
    """sensitivity: every change under seeded/ must be reported by the quick check of each property listed in its meta.json"""
    root = os.path.join(HERE, "seeded")
    bad = 0
    for sid in sorted(os.listdir(root)):
        if ids and sid not in ids: continue
        meta = json.load(open(os.path.join(root, sid, "meta.json")))
        if meta.get("stale") and sh(["git", "-C", os.environ.get("REPO", "/repo"), "apply", "--check", os.path.join(root, sid, "patch.diff")]).returncode != 0:
            print("seeded/%-10s stale: %s" % (sid, meta["stale"][:160])); continue
        if meta.get("expect") == "quiet":
            # a behaviour-preserving change: every registered check must stay silent
            r = sh([os.path.join(HERE, "checks", "mutcheck.sh"), os.path.join(root, sid, "patch.diff")] + sorted(JOBS), timeout=7200)
            noisy = [l for l in r.stdout.splitlines() if l.startswith(("VIOLATION", "MACHINERY"))]      # a listed KNOWN-FINDING is what the unchanged tree prints too
            print("seeded/%-10s all %d checks: %s" % (sid, len(JOBS), "quiet" if not noisy and r.stdout.count("tier=") == len(JOBS) else "NOT QUIET / INCOMPLETE"))
            for l in noisy: print("   ", l[:220])
            if noisy or r.stdout.count("tier=") != len(JOBS): bad += 1
            continue
        props = list(meta["caught_by"].keys())
        r = sh([os.path.join(HERE, "checks", "mutcheck.sh"), os.path.join(root, sid, "patch.diff")] + props, timeout=3600)
        for pr in props:
            hit = [l for l in r.stdout.splitlines() if l.startswith("VIOLATION property=%s " % pr)]
            print("seeded/%-4s %s: %s" % (sid, pr, ("caught (%s)" % ", ".join(sorted(set(re.search(r"sig=(\S+)", l).group(1) for l in hit)))) if hit else "NOT CAUGHT"))
            if not hit: bad += 1
        for l in r.stdout.splitlines():
            if l.startswith("MACHINERY"): print("   ", l[:200])
    print("seeded selftest:", "FAILED" if bad else "ok")
    return 2 if bad else 0


def main():
    a = sys.argv[1:]
    if not a:
        print(__doc__); return 2
    if a[0] == "check":
        tier = os.environ.get("VERIF_TIER", "quick")
        if "--tier" in a: tier = a[a.index("--tier") + 1]
        return check(a[1], tier)
    if a[0] == "replay":
        # the replay file names the build variant (and valgrind) it was found under in its trailing comment
        txt = open(a[1]).read()
        m = re.search(r"^# property=\S+ sig=\S+ variant=(\w+)( \(under valgrind\))?", txt, re.M)
        variant = a[a.index("--variant") + 1] if "--variant" in a else (m.group(1) if m else "rel")
        exe = build(variant)
        cmd = [exe, "replay", a[1]] + (["--trace"] if "--trace" in a else [])
        mj = re.search(r"^# property=.* judged=(\S+)", txt, re.M)
        if mj and mj.group(1) != "all" and "--all" not in a:
            cmd += ["--only", mj.group(1)]        # the run stops at its first recorded violation: judge what the check judged
        kw = {}
        if m and m.group(2):
            cmd, kw = wrap(dict(valgrind=True), cmd)
        r = subprocess.run(cmd, **kw)
        if r.returncode != 0:
            print("replay: the run died (exit status %d): that is the violation for crash signatures" % r.returncode)
        return r.returncode
    if a[0] == "selftest-det":
        n = int(a[a.index("--n") + 1]) if "--n" in a else 600
        return selftest_det(n)
    if a[0] == "selftest-seeded":
        return selftest_seeded(a[1:])
    if a[0] == "minimise":
        exe = build("rel")
        text, runs = minimise(exe, open(a[1]).read(), a[2], a[3])
        sys.stdout.write(text); return 0
    print(__doc__); return 2


if __name__ == "__main__":
    sys.exit(main())
