#!/bin/bash
# confirm_benign.sh <id> <patch> -- a behaviour-preserving change must build and pass the repository's 15 tests.
set -uo pipefail
ID="$1"; PATCH="$2"; W=/tmp/confirmb_$ID.$$
git -C /repo worktree add -q "$W" HEAD
trap 'git -C /repo worktree remove --force "$W" >/dev/null 2>&1' EXIT
cd "$W" && git apply "$PATCH" || { echo "$ID: PATCH-DOES-NOT-APPLY"; exit 1; }
meson setup _b >/dev/null 2>&1 && meson compile -C _b >/dev/null 2>&1 || { echo "$ID: BUILD-FAILED"; exit 1; }
meson test -C _b > "$W/test.log" 2>&1; RC=$?
echo "$ID: test suite rc=$RC ok=$(grep -a '^Ok:' "$W/test.log" | awk '{print $2}')"
