"""jobs.py - which engine runs, with which configuration, for each property."""

ENGINE_INFO = {
    "real_code": "the whole cimba library built from /repo's working tree (all src/*.c, the Linux port, both .asm files, generated ziggurat tables), linked statically into the harness",
    "stubs": ["cmi_cpu_cores (returns the planned worker count, experiment/rng engines only)",
              "pthread_create/pthread_join (thin link-time wrappers adding the baton scheduler)",
              "cmb_random_hwseed (never called)"],
}

def J(engine, variant, nq, nt, cfg="", only=None, **kw):
    d = dict(engine=engine, variant=variant, n_quick=nq, n_thorough=nt, cfg=cfg, only=only)
    d.update(kw)
    return d

JOBS = {
    "C01": dict(
        level="exploration",
        rule="seed -> plan (top-level and in-action schedule/cancel/reschedule/reprioritise/pattern/clear steps) -> real event queue vs exact model; "
             "distinct = distinct trace hashes; non-trivial = >= 4 events and at least one step issued from inside a running action",
        jobs=[J("events", "rel", 120000, 3000000), J("events", "san", 15000, 300000)],
        wall_quick=50, wall_thorough=900,
        assumptions=["FIFO among equal (time, priority) is judged by issue order; handles only need to be non-zero and distinct among pending events",
                     "pattern_find may return any matching event (order unspecified by the header)"],
    ),
}
