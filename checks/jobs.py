"""jobs.py - which engine runs, with which configuration, for each property."""

ENGINE_INFO = {
    "real_code": "the whole cimba library built from /repo's working tree (all src/*.c, the Linux port, both .asm files, generated ziggurat tables) with -DCIMBA_VERIF, linked statically into the harness; the one guarded hook (two calls in cmi_mempool_alloc / cmi_mempool_free, commit 9d6c11b) only tells the harness which pool object was handed out or returned, so that the contents of pooled objects can be marked dead (overwritten; poisoned under ASan)",
    "stubs": ["cmi_cpu_cores (returns the planned worker count, experiment/rng engines only)",
              "pthread_create/pthread_join (thin link-time wrappers adding the baton scheduler)",
              "cmb_random_hwseed (never called)"],
}

def J(engine, variant, nq, nt, cfg="", only=None, **kw):
    d = dict(engine=engine, variant=variant, n_quick=nq, n_thorough=nt, cfg=cfg, only=only)
    d.update(kw)
    return d

JOBS = {
    "C01": dict(
        level="exploration",
        rule="seed -> plan (top-level and in-action schedule/cancel/reschedule/reprioritise/pattern/clear steps) -> real event queue vs exact model; "
             "distinct = distinct trace hashes; non-trivial = >= 4 events and at least one step issued from inside a running action",
        jobs=[J("events", "rel", 120000, 3000000), J("events", "san", 15000, 300000),
              # application events among processes (some of them with a process as their subject): they must stay scheduled until they run or are cancelled by the application
              J("procs", "rel", 40000, 1000000, cfg="mix=wait,faults=1", only="C01"), J("procs", "san", 4000, 100000, cfg="mix=wait,faults=2", only="C01")],
        wall_quick=50, wall_thorough=900, crash_is_violation=True,
        assumptions=["FIFO among equal (time, priority) is judged by issue order; handles only need to be non-zero and distinct among pending events",
                     "pattern_find may return any matching event (order unspecified by the header)",
                     "a second generator (procs engine, wait mix) schedules application events while processes hold, wait, are interrupted, stopped and restarted; a third of those events name a process as their subject; after every library event each of them must still be scheduled unless it ran or the plan cancelled it"],
    ),
    "C02": dict(
        level="exploration",
        rule="seed -> operation history on a stand-alone cmi_hashheap (initial exponent 1-6; default, waiting-list, pool-holder and object-priority orders taken from freshly initialised library objects; automatic and colliding caller keys) vs map+order model with a structural check after every operation; "
             "distinct = distinct trace hashes; non-trivial = crossed a capacity doubling, had colliding caller keys live together, or re-inserted a removed key",
        jobs=[J("hheap", "rel", 400000, 8000000), J("hheap", "san", 40000, 800000)],
        wall_quick=50, wall_thorough=900, crash_is_violation=True,
        assumptions=["'minimum' is judged with the comparator the library installed (no live element strictly preferred); for the default order additionally with the documented increasing-dsortkey rule",
                     "the event order is exercised through C01 (its comparator and queue are private statics)"],
    ),
    "C20": dict(
        level="exploration",
        rule="seed -> alloc/free/verify history on a dynamic pool or on statically initialised thread-local pools (one thread, or two real threads under the baton scheduler with thread exit and cmi_mempool_cleanup) vs address/stamp ledger; "
             "distinct = distinct trace hashes; non-trivial = >= 8 allocations and at least one pool expansion",
        jobs=[J("mempool", "rel", 12000, 300000), J("mempool", "san", 3000, 60000)],
        wall_quick=50, wall_thorough=900, crash_is_violation=True,
        assumptions=["object sizes are multiples of 8 from {8,16,24,40,64,512,2048,4096,8192}; at most 40000 live objects"],
    ),
    "C03": dict(
        level="exploration",
        rule="seed -> plan of start/resume/transfer/yield/return/exit/stop/restart/recurse/setcsr steps executed by whichever coroutine is current, on the real cmi_coroutine API and asm context switch, vs model of status/current/caller/parent; "
             "all six callee-saved registers live with unique values across every switch (asm shim), MXCSR and stack sentinels re-checked on every switch-in; distinct = distinct trace hashes; non-trivial = at least 4 context switches",
        jobs=[J("coro", "rel", 150000, 4000000), J("coro", "san", 20000, 400000)],
        wall_quick=50, wall_thorough=900, crash_is_violation=True,
        assumptions=["decided dynamically (the disassembly is not parsed); x87 control word and AVX-512 mask registers are not observed",
                     "a crash of a coroutine-engine run counts as a C03 violation (a corrupted context usually shows as a wild jump)"],
    ),
}

PROCS_RULE = ("two search modes. random: seed -> plan (process scripts over the listed operations, address-slot permutation, priorities, integer-grid times so that ties are the rule, "
              "attached faults: interrupt / stop / guard cancel / guard remove / event cancel / priority change / restart / resume / condition signal / queue cancel / "
              "timer added, cancelled or all timers cleared by somebody else than the process, "
              "each aimed at a victim's in-flight operation with an event priority just above or below the victim's) -> real library under the harness-owned dispatch loop with "
              "monitors after every event and at every instant boundary. single-fault sweep: a fault-free base plan is sampled by seed and run once to record every blocking call's window; then every "
              "(call instance x instant in its window at which anything happened x applicable fault kind x event priority just above / just below the victim's) is run as its own plan. "
              "distinct = distinct trace hashes; non-trivial = at least one fault landed on a blocked operation")

def procs_jobs(only, mixes, nq, nt, san_mix=None, crowd_mix=None, sweep_mixes=None, churn=0, extra=None):
    jobs = []
    per = max(1, nq // max(1, len(mixes)))
    pert = max(1, nt // max(1, len(mixes)))
    for m in mixes:
        jobs.append(J("procs", "rel", per, pert, cfg=m, only=only))
    if crowd_mix:
        jobs.append(J("procs", "rel", max(400, nq // 40), nt // 40, cfg=crowd_mix, only=only))
    if churn:
        # priority churn on one long waiting list (8/16-waiter thresholds), see gen_churn in procs_gen.c
        jobs.append(J("procs", "rel", churn, churn * 40, cfg="churn=1", only=only))
        jobs.append(J("procs", "san", max(500, churn // 10), churn * 4, cfg="churn=1", only=only))
    for cfg, n in (extra or []):
        # special generator shapes: storm=1 (everything in very few instants, ends and restarts), huge=1 (amounts around 2^63 and 2^64)
        jobs.append(J("procs", "rel", n, n * 40, cfg=cfg, only=only))
        jobs.append(J("procs", "san", max(500, n // 10), n * 4, cfg=cfg, only=only))
    jobs.append(J("procs", "san", max(2000, nq // 12), nt // 12, cfg=san_mix or mixes[-1], only=only))
    # single-fault sweep: for each sampled fault-free base program, every (blocking call x instant in its window x fault kind x priority side)
    sw = sweep_mixes if sweep_mixes is not None else [m.split(",faults")[0] for m in mixes[:2]]
    sw = list(dict.fromkeys(sw))
    for m in sw:
        jobs.append(J("procs", "rel", max(60, 480 // len(sw)), 24000 // len(sw), cfg=m, only=only, sweep=True))
    return jobs

JOBS.update({
    "C04": dict(level="fault_enumeration", rule=PROCS_RULE,
        jobs=procs_jobs("C04", ["mix=wait,faults=0", "mix=wait,faults=1", "mix=wait,faults=2", "mix=res,faults=2", "mix=all,faults=2"], 900000, 24000000, crowd_mix="mix=wait,faults=2,crowd=1", extra=[("mix=wait,faults=2,storm=1", 60000), ("mix=wait,faults=0,storm=1", 30000)]),
        wall_quick=55, wall_thorough=1200,
        assumptions=["interrupts may be lost (the property does not promise delivery) but never duplicated, late or stale",
                     "a quarter of the resumes carry the success code, as in the tutorials (at most one per process and instant); one timer in eight carries the value 0 as well: it ends a yield with success, and vanishes when it hits a hold or a wait (which goes on waiting)",
                     "once an interrupt or a preemption notice has been delivered, every timer that was armed before the interrupt was sent (the preemption happened) is dead and must never fire; only a timer that somebody else armed on the process between that moment and the delivery, in the same instant, may or may not fire (the library clears it in one case and keeps it in the other)",
                     "a return with a non-success value must match exactly one undelivered cause with that unique value, due at exactly that instant"]),
    "C05": dict(level="fault_enumeration", rule=PROCS_RULE,
        jobs=procs_jobs("C05", ["mix=res,faults=0", "mix=res,faults=1", "mix=res,faults=2", "mix=all,faults=2"], 900000, 24000000, crowd_mix="mix=res,faults=2,crowd=1", churn=10000),
        wall_quick=55, wall_thorough=1200,
        assumptions=["the harness keeps its own belief of who holds each resource from the return values alone and compares it with the holder/in-use/available/held-by queries and the process's own list after every event"]),
    "C06": dict(level="fault_enumeration", rule=PROCS_RULE,
        jobs=procs_jobs("C06", ["mix=res,faults=1", "mix=pool,faults=1", "mix=buf,faults=1", "mix=oq,faults=1", "mix=pq,faults=1", "mix=cond,faults=1", "mix=all,faults=2"], 400000, 16000000, crowd_mix="mix=all,faults=1,crowd=1", sweep_mixes=["mix=res", "mix=pool", "mix=buf", "mix=oq", "mix=pq"], churn=40000),
        wall_quick=55, wall_thorough=1200,
        assumptions=["judges wake-ups; a process that waits again inside one call (served in part, or robbed of its grant) must keep the waiting-since time of that call",
                     "waiters of equal priority that started waiting in the same instant are ranked by their order of arrival at the list (harness stamps: at most one process enters a given list per event); waiters whose priority was changed, or that ran, in the event of the grant are not compared",
                     "conditions: each waiter has its own predicate, so what is judged is the order among the waiters that one signal (explicit or forwarded) finds satisfied: those that then resume with success in that instant must do so by (priority, waiting-since), unless a priority was set in between; one pass of the library over the waiters is recognised as a run of predicate evaluations with no harness step in between",
                     "a waiter that stays in a list without running must keep its waiting-since time, and whoever enters a list does so with the time at which its call began to wait",
                     "that the waiting-list comparator is a heap order at all is certified by C02 (hheap engine, comparator taken from a freshly initialised guard)"]),
    "C07": dict(level="fault_enumeration", rule=PROCS_RULE,
        jobs=procs_jobs("C07", ["mix=pool,faults=0", "mix=pool,faults=1", "mix=pool,faults=2", "mix=all,faults=2"], 900000, 24000000, crowd_mix="mix=pool,faults=2,crowd=1", churn=10000),
        wall_quick=55, wall_thorough=1200,
        assumptions=["a process whose units vanish without it running, ending or being stopped is a preemption victim; the taker is the process that gained units in the same segment of the event",
                     "priorities are compared as they were at the latest of the start of the event and the preempting call"]),
    "C08": dict(level="fault_enumeration", rule=PROCS_RULE,
        jobs=procs_jobs("C08", ["mix=res,faults=2", "mix=pool,faults=2", "mix=buf,faults=2", "mix=oq,faults=2", "mix=pq,faults=2", "mix=all,faults=2"], 400000, 16000000, crowd_mix="mix=all,faults=2,crowd=1", sweep_mixes=["mix=res", "mix=pool", "mix=buf", "mix=oq", "mix=pq"], churn=10000),
        wall_quick=55, wall_thorough=1200,
        assumptions=["evaluated at every instant boundary (detected retrospectively) and at quiescence through the public queries only"]),
    "C09": dict(level="fault_enumeration", rule=PROCS_RULE,
        jobs=procs_jobs("C09", ["mix=wait,faults=2", "mix=res,faults=2", "mix=pool,faults=2", "mix=all,faults=2"], 900000, 24000000, crowd_mix="mix=wait,faults=2,crowd=1", sweep_mixes=["mix=wait", "mix=res", "mix=pool"], extra=[("mix=wait,faults=2,storm=1", 60000)]),
        wall_quick=55, wall_thorough=1200,
        assumptions=["a waiter that left its wait earlier in the same instant for another cause is not owed the end notification"]),
    "C11": dict(level="fault_enumeration", rule=PROCS_RULE,
        jobs=procs_jobs("C11", ["mix=buf,faults=0", "mix=buf,faults=1", "mix=buf,faults=2", "mix=all,faults=2"], 300000, 8000000, crowd_mix="mix=buf,faults=2,crowd=1", extra=[("mix=buf,faults=1,huge=1", 60000), ("mix=buf,faults=0,huge=1", 30000)]),
        wall_quick=55, wall_thorough=1200,
        assumptions=["the amount argument is a harness-owned variable read while the call is still blocked, so the level equation is exact after every event"]),
    "C12": dict(level="fault_enumeration", rule=PROCS_RULE,
        jobs=procs_jobs("C12", ["mix=oq,faults=1", "mix=oq,faults=2", "mix=pq,faults=1", "mix=pq,faults=2", "mix=all,faults=2"], 900000, 24000000, crowd_mix="mix=oq,faults=2,crowd=1", sweep_mixes=["mix=oq", "mix=pq"]),
        wall_quick=55, wall_thorough=1200,
        assumptions=["object queues: FIFO by put-completion order; priority queues: (priority desc, put order); model queues are capped at 64 entries (longer runs stop judging)"]),
    "C13": dict(level="fault_enumeration", rule=PROCS_RULE,
        jobs=procs_jobs("C13", ["mix=cond,faults=0", "mix=cond,faults=1", "mix=cond,faults=2", "mix=all,faults=2"], 900000, 24000000, crowd_mix="mix=cond,faults=1,crowd=1"),
        wall_quick=55, wall_thorough=1200,
        assumptions=["a waiter whose predicate was true all the time since it began to wait is not owed a wake-up (nothing has signalled the condition since); one whose predicate became true through a signalled change is",
                     "predicates read harness variables (changed only in steps that signal) or the public state of objects whose waiting list the condition observes"]),
    "C14": dict(level="fault_enumeration", rule=PROCS_RULE,
        jobs=procs_jobs("C14", ["mix=res,faults=2,rec=1", "mix=pool,faults=2,rec=1", "mix=buf,faults=2,rec=1", "mix=oq,faults=2,rec=1", "mix=pq,faults=2,rec=1"], 900000, 24000000, sweep_mixes=["mix=res,rec=1", "mix=pool,rec=1", "mix=pq,rec=1"]),
        wall_quick=55, wall_thorough=1200,
        assumptions=["up to three recording windows per object per run; the exact average is taken over the time during which recording was on (a pause is not recorded, whatever happened in it); the true trajectory is sampled by the harness at every instant boundary (integer-grid times make the reference integral exact)"]),
})

JOBS.update({
    "C15": dict(level="exploration",
        rule="seed -> 1-4 real threads under the baton scheduler, each with a dirty pre-seed history (flips, cached-parameter samplers, earlier seedings), a seeding and a list of sampler calls; outputs compared bit for bit with the same call list in a fresh thread and, for raw calls, with an independent sfc64/splitmix64 implementation; "
             "distinct = distinct trace hashes; non-trivial = a dirty history and at least one baton hand-over",
        jobs=[J("rng", "rel", 8000, 400000), J("rng", "san", 1500, 50000)],
        wall_quick=55, wall_thorough=900,
        assumptions=["threads interleave at call granularity (a race inside one call is out of reach of a serialising scheduler)",
                     "38 sampler kinds (every sampling function of cmb_random.h except the hardware seed) with fixed admissible parameters; seeds 0, 1, 2^64-1, the dummy seed and random ones"]),
    "C19": dict(level="exploration",
        rule="seed -> cimba_run_experiment called for real with wrapped pthread_create/join/cpu-count: 1-9 worker threads parked and released by the baton scheduler at yield points inside the trial function, 1-48 trials of eleven content kinds (one of them starts a process that the main thread created and initialised before the experiment) (a second generator: 64-400 short trials for 1-3 workers, one in forty of which ends its worker thread with cmb_logger_error), element sizes 9-200 bytes, one common trial function or (a quarter of the runs) your_trial_func == NULL with the function stored as the first member of every trial struct; exactly-once ledger and byte comparison with each trial run alone in a fresh thread and with a one-after-another run; "
             "distinct = distinct trace hashes; non-trivial = some worker ran more than one trial and the baton changed hands",
        jobs=[J("experiment", "rel", 6000, 150000), J("experiment", "san", 1500, 30000),
              # very many short trials for one to three workers (64 to 400 trials), one in forty gives up and takes its worker thread with it
              J("experiment", "rel", 1200, 40000, cfg="many=1"), J("experiment", "san", 150, 4000, cfg="many=1")],
        wall_quick=55, wall_thorough=900, crash_is_violation=True,
        assumptions=["a crash of an experiment run counts as a C19 violation (the call never returned)", "one trial kind makes processes of equal priority queue in the same instant and equal-priority pool holders be preempted, after an allocation history that differs from trial to trial: the outcome must not depend on where the allocator put things",
                     "the number of worker threads itself is not judged"]),
    "C10": dict(level="exploration",
        rule="every engine's valid-program generator on the release-assert build (gcc -O3 -DNDEBUG) and on the ASan+UBSan build, plus growth templates (waiters on both sides of 8 and 16, thousands of armed timers and queued objects crossing 64 tag-pool chunks, histories beyond 1024 samples) and utility-class call sequences from the dispatcher and from inside a process; "
             "a run is a violation when the process dies (library assertion, SIGSEGV, SIGFPE, watchdog) or a sanitizer reports; distinct = distinct trace hashes; non-trivial by each engine's rule",
        jobs=[J("procs", "rel", 60000, 1500000, cfg="mix=all,faults=2", only="C10"), J("procs", "san", 16000, 400000, cfg="mix=all,faults=2", only="C10"),
              J("procs", "rel", 3000, 60000, cfg="mix=all,faults=2,crowd=1", only="C10"), J("procs", "san", 1000, 20000, cfg="mix=all,faults=2,crowd=1", only="C10"),
              J("procs", "rel", 300, 6000, cfg="mix=all,faults=1,big=1,rec=1", only="C10"), J("procs", "san", 100, 2000, cfg="mix=all,faults=1,big=1,rec=1", only="C10"),
              J("procs", "san", 4000, 100000, cfg="mix=wait,faults=2,crowd=1", only="C10"),
              J("procs", "rel", 6000, 200000, cfg="churn=1", only="C10"), J("procs", "san", 1500, 40000, cfg="churn=1", only="C10"),
              J("util", "rel", 30000, 800000, only="C10"), J("util", "san", 8000, 200000, only="C10"),
              J("events", "rel", 30000, 800000, only="C10"), J("events", "san", 8000, 200000, only="C10"),
              J("hheap", "san", 10000, 300000, only="C10"), J("coro", "san", 10000, 300000, only="C10"),
              J("procs", "rel", 320, 8000, cfg="mix=all,faults=2", only="C10", valgrind=True), J("util", "rel", 160, 4000, only="C10", valgrind=True),
              J("events", "rel", 160, 4000, only="C10", valgrind=True), J("hheap", "rel", 160, 4000, only="C10", valgrind=True),
              J("mempool", "san", 2000, 60000, only="C10"), J("rng", "san", 2000, 60000, only="C10"), J("experiment", "san", 800, 20000, only="C10"),
              # the end of a trial as the tutorials write it: stop, terminate and destroy heap-allocated processes one after the other while wake-ups are pending
              J("teardown", "san", 6000, 200000, only="C10"), J("teardown", "rel", 30000, 1000000, only="C10")],
        wall_quick=58, wall_thorough=1500,
        assumptions=["validity standard: the preconditions documented in include/*.h (where the header is silent, the call is valid)",
                     "UBSan alignment/null/object-size checks are off (one deliberate misaligned store in cmi_coroutine_context_init; the offsetof-via-null idiom in cmi_slist.h)",
                     "a slice of each generator also runs under valgrind memcheck on the release build (uninitialised-value use, which ASan cannot see)",
                     "floating-point traps inside processes are judged on the gcc build only (clang raises a spurious invalid-operation exception in double->uint64 conversions)"]),
})
