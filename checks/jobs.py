"""jobs.py - which engine runs, with which configuration, for each property."""

ENGINE_INFO = {
    "real_code": "the whole cimba library built from /repo's working tree (all src/*.c, the Linux port, both .asm files, generated ziggurat tables), linked statically into the harness",
    "stubs": ["cmi_cpu_cores (returns the planned worker count, experiment/rng engines only)",
              "pthread_create/pthread_join (thin link-time wrappers adding the baton scheduler)",
              "cmb_random_hwseed (never called)"],
}

def J(engine, variant, nq, nt, cfg="", only=None, **kw):
    d = dict(engine=engine, variant=variant, n_quick=nq, n_thorough=nt, cfg=cfg, only=only)
    d.update(kw)
    return d

JOBS = {
    "C01": dict(
        level="exploration",
        rule="seed -> plan (top-level and in-action schedule/cancel/reschedule/reprioritise/pattern/clear steps) -> real event queue vs exact model; "
             "distinct = distinct trace hashes; non-trivial = >= 4 events and at least one step issued from inside a running action",
        jobs=[J("events", "rel", 120000, 3000000), J("events", "san", 15000, 300000)],
        wall_quick=50, wall_thorough=900,
        assumptions=["FIFO among equal (time, priority) is judged by issue order; handles only need to be non-zero and distinct among pending events",
                     "pattern_find may return any matching event (order unspecified by the header)"],
    ),
    "C02": dict(
        level="exploration",
        rule="seed -> operation history on a stand-alone cmi_hashheap (initial exponent 1-6; default, waiting-list, pool-holder and object-priority orders taken from freshly initialised library objects; automatic and colliding caller keys) vs map+order model with a structural check after every operation; "
             "distinct = distinct trace hashes; non-trivial = crossed a capacity doubling, had colliding caller keys live together, or re-inserted a removed key",
        jobs=[J("hheap", "rel", 400000, 8000000), J("hheap", "san", 40000, 800000)],
        wall_quick=50, wall_thorough=900,
        assumptions=["'minimum' is judged with the comparator the library installed (no live element strictly preferred); for the default order additionally with the documented increasing-dsortkey rule",
                     "the event order is exercised through C01 (its comparator and queue are private statics)"],
    ),
    "C20": dict(
        level="exploration",
        rule="seed -> alloc/free/verify history on a dynamic pool or on statically initialised thread-local pools (one thread, or two real threads under the baton scheduler with thread exit and cmi_mempool_cleanup) vs address/stamp ledger; "
             "distinct = distinct trace hashes; non-trivial = >= 8 allocations and at least one pool expansion",
        jobs=[J("mempool", "rel", 12000, 300000), J("mempool", "san", 3000, 60000)],
        wall_quick=50, wall_thorough=900,
        assumptions=["object sizes are multiples of 8 from {8,16,24,40,64,512,2048,4096,8192}; at most 40000 live objects"],
    ),
    "C03": dict(
        level="exploration",
        rule="seed -> plan of start/resume/transfer/yield/return/exit/stop/restart/recurse/setcsr steps executed by whichever coroutine is current, on the real cmi_coroutine API and asm context switch, vs model of status/current/caller/parent; "
             "all six callee-saved registers live with unique values across every switch (asm shim), MXCSR and stack sentinels re-checked on every switch-in; distinct = distinct trace hashes; non-trivial = at least 4 context switches",
        jobs=[J("coro", "rel", 150000, 4000000), J("coro", "san", 20000, 400000)],
        wall_quick=50, wall_thorough=900, crash_is_violation=True,
        assumptions=["decided dynamically (the disassembly is not parsed); x87 control word and AVX-512 mask registers are not observed",
                     "a crash of a coroutine-engine run counts as a C03 violation (a corrupted context usually shows as a wild jump)"],
    ),
}
