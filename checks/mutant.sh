#!/bin/bash
# mutant.sh <sed-script|patch-file> <engine> <n> [cfg] -- apply a change to a scratch worktree of /repo,
# build the harness against it in /tmp, run n seeds, print a signature histogram, remove everything.
set -euo pipefail
CHANGE="$1"; ENGINE="$2"; N="${3:-2000}"; CFG="${4:-}"
W=/tmp/mutwt.$$; B=/tmp/mutbuild.$$
git -C /repo worktree add -q "$W" HEAD
trap 'git -C /repo worktree remove --force "$W" >/dev/null 2>&1; rm -rf "$B"' EXIT
if [ -f "$CHANGE" ]; then git -C "$W" apply "$CHANGE"; else (cd "$W" && eval "$CHANGE"); fi
git -C "$W" diff --stat | tail -1
V="${VARIANT:-rel}"
REPO="$W" VERIF_BUILD_ROOT="$B" /verif/build.sh "$V" >/dev/null 2>&1 || { echo "BUILD FAILED"; exit 3; }
"$B/$V/cimsim" run "$ENGINE" 1 0 "$N" --cfg "$CFG" 2>&1 | grep -a '^V \|CRASH\|Fatal\|ERROR: Addr\|runtime error' | cut -c1-260 | awk '{ if ($1=="V") {$2=""}; print }' | sort | uniq -c | sort -rn | head -${TOP:-8}
