HOOK_COMMITS = []
REPO_FIX_COMMITS = []
ENGINES = [
    dict(name="coro", path="sim/eng_coro.c + sim/regs.asm", serves_properties=["C03", "C10"], kind_free_text="seeded transfer schedules on the real coroutine API and assembly context switch; model of current/caller/parent; register, MXCSR, stack and alignment sentinels"),
    dict(name="hheap", path="sim/eng_hheap.c", serves_properties=["C02", "C10"], kind_free_text="seeded operation histories on stand-alone hashheaps with every ordering the library installs, colliding and re-inserted caller keys, map+order reference model and structural well-formedness after every operation"),
    dict(name="mempool", path="sim/eng_mempool.c", serves_properties=["C20", "C10"], kind_free_text="seeded alloc/free histories on dynamic and static thread-local pools (real threads under the baton scheduler) against an address/stamp ledger across every expansion threshold"),
    dict(name="events", path="sim/eng_events.c", serves_properties=["C01", "C10"], kind_free_text="seeded plans of schedule/cancel/reschedule/reprioritise/pattern/clear steps issued from outside and from inside running actions, real event queue vs exact executable model"),
]
NOT_APPLICABLE = [
    dict(property_id="C16", reason="a sampler's output is a pure function of generator state and parameters: no schedule, clock, fault or interleaving to simulate; distribution fit is statistical testing, a different technique (sampler crashes inside processes are reached under C10, seed-dependence under C15)"),
    dict(property_id="C17", reason="summaries and merge are pure functions of the input sequence and its split: nothing to schedule or fault (the time-weighted mean is exercised as an oracle input in C14)"),
    dict(property_id="C18", reason="sort/median/quartiles/histograms/correlograms are pure functions of the input arrays: nothing to schedule or fault (memory safety on edge sizes is reached under C10)"),
]
TEXTS = {
    "C01": dict(engine="events", design_ref="DESIGN.md section 6, C01",
        technique="deterministic simulation: seeded operation plans (outside and inside running actions) against an exact executable model of the (time, -priority, issue order) queue",
        level_text="seeded exploration: every run drives the real event queue through a generated plan and compares every dispatch, clock value, current-event query and query/return value with an exact model; a clean batch is evidence, not proof",
        level_note="trusts the 150-line model in sim/eng_events.c; programs are sampled, not enumerated; outside a running action cmb_event_current() is only probed, not judged"),
    "C02": dict(engine="hheap", design_ref="DESIGN.md section 6, C02",
        technique="deterministic simulation: seeded operation histories against a map+order reference model, structural invariant after every step",
        level_text="seeded exploration of operation histories on the real hashheap with each ordering function the library installs; return values, minimum-ness, payload identity, count and the heap/hash structure are checked after every operation",
        level_note="trusts the reference model in sim/eng_hheap.c and reads the public struct fields of cmi_hashheap; caller keys are kept disjoint from automatically issued keys (unique-key precondition)"),
    "C20": dict(engine="mempool", design_ref="DESIGN.md section 6, C20",
        technique="deterministic simulation: seeded allocation histories (threads parked and released by a seeded baton scheduler for thread-local pools) against an address/stamp ledger",
        level_text="seeded exploration of alloc/free histories driving the live population across every k*incr_num boundary and across 63/64/65 and 127/128 chunks, for dynamic pools and for static thread-local pools used from one or two real threads",
        level_note="trusts the ledger (sorted address array with neighbour overlap check, full-size stamps); thread interleaving is at operation granularity"),
    "C03": dict(engine="coro", design_ref="DESIGN.md section 6, C03",
        technique="deterministic simulation: seeded transfer schedules against a model of current/caller/parent, with register, MXCSR, stack and alignment sentinels around every real context switch",
        level_text="seeded exploration of start/yield/resume/transfer/exit/stop/restart interleavings at varying call depth; every switch-in checks who runs, which message arrived, rbx/rbp/r12-r15 (made live by an asm shim), MXCSR control bits and patterned stack locals; function-entry and exit-function alignment are recorded by asm stubs",
        level_note="trusts the 30-line model in sim/eng_coro.c and the shim in sim/regs.asm; dynamic only; the same shim also wraps process yields in procs crowd runs"),
}
