HOOK_COMMITS = []
REPO_FIX_COMMITS = []
ENGINES = [
    dict(name="events", path="sim/eng_events.c", serves_properties=["C01", "C10"], kind_free_text="seeded plans of schedule/cancel/reschedule/reprioritise/pattern/clear steps issued from outside and from inside running actions, real event queue vs exact executable model"),
]
NOT_APPLICABLE = [
    dict(property_id="C16", reason="a sampler's output is a pure function of generator state and parameters: no schedule, clock, fault or interleaving to simulate; distribution fit is statistical testing, a different technique (sampler crashes inside processes are reached under C10, seed-dependence under C15)"),
    dict(property_id="C17", reason="summaries and merge are pure functions of the input sequence and its split: nothing to schedule or fault (the time-weighted mean is exercised as an oracle input in C14)"),
    dict(property_id="C18", reason="sort/median/quartiles/histograms/correlograms are pure functions of the input arrays: nothing to schedule or fault (memory safety on edge sizes is reached under C10)"),
]
TEXTS = {
    "C01": dict(engine="events", design_ref="DESIGN.md section 6, C01",
        technique="deterministic simulation: seeded operation plans (outside and inside running actions) against an exact executable model of the (time, -priority, issue order) queue",
        level_text="seeded exploration: every run drives the real event queue through a generated plan and compares every dispatch, clock value, current-event query and query/return value with an exact model; a clean batch is evidence, not proof",
        level_note="trusts the 150-line model in sim/eng_events.c; programs are sampled, not enumerated; outside a running action cmb_event_current() is only probed, not judged"),
}
