#!/usr/bin/env python3
"""mkmanifest.py - writes MANIFEST.json from the tables in jobs.py and the texts below."""
import json, os, sys
HERE = os.path.dirname(os.path.dirname(os.path.abspath(__file__)))
sys.path.insert(0, os.path.join(HERE, "checks"))
from jobs import JOBS
from manifest_texts import TEXTS, NOT_APPLICABLE, ENGINES, REPO_FIX_COMMITS, HOOK_COMMITS

checks = []
for pid in sorted(JOBS):
    t = TEXTS[pid]
    checks.append(dict(
        property_id=pid,
        quick_cmd="python3 checks/run.py check %s --tier quick" % pid,
        thorough_cmd="python3 checks/run.py check %s --tier thorough" % pid,
        evidence_file="/verif/evidence/%s.json" % pid,
        replay_cmd_template="python3 checks/run.py replay {path}",
        engine=t["engine"],
        level_claimed=dict(category=JOBS[pid]["level"], text=t["level_text"], design_ref=t["design_ref"]),
        level_note=t["level_note"],
        technique=t["technique"],
    ))
m = dict(
    version=1,
    setup_cmd="./build.sh rel && ./build.sh san",
    hooks=dict(guard="CIMBA_VERIF",
               enable="build.sh compiles /repo's working tree with -DCIMBA_VERIF (rel: gcc -O3 -DNDEBUG; san: clang ASan+UBSan)",
               baseline_off_cmd="meson compile -C /repo/_build && meson test -C /repo/_build --timeout-multiplier 0",
               source_commits=HOOK_COMMITS, add_only=True),
    engines=ENGINES,
    checks=checks,
    not_applicable=NOT_APPLICABLE,
    notes="Deterministic simulation with fault injection; see DESIGN.md. Genuine defects repaired in /repo by 'fix:' commits: "
          + ", ".join(REPO_FIX_COMMITS) + ". known_findings.txt lists fixed and known findings.",
)
json.dump(m, open(os.path.join(HERE, "MANIFEST.json"), "w"), indent=1)
print("wrote MANIFEST.json with %d checks" % len(checks))
