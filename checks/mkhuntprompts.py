#!/usr/bin/env python3
"""mkhuntprompts.py - prompts for REVIEW sub-agents: each gets the text of one or a few properties and a scratch worktree
of /repo, and is asked to find genuine violations in the library as it is (no seeding), with a reproducer for each.
What they report is a hypothesis: nothing counts until a check in /verif reproduces it (see DESIGN.md section 13).
Writes /tmp/seedprompth_<k>.txt, creates /tmp/seedh_<k> (worktree) and /tmp/seedouth_<k>."""
import json, os, subprocess, sys
rnd = sys.argv[1] if len(sys.argv) > 1 else 'h'
props = {json.loads(l)['id']: json.loads(l) for l in open('/verif/properties.jsonl')}
groups = {'H1': ['C04'], 'H2': ['C05', 'C08'], 'H3': ['C07'], 'H4': ['C09'], 'H5': ['C11', 'C12'], 'H6': ['C13', 'C06'],
          'H7': ['C14'], 'H8': ['C01', 'C02'], 'H9': ['C19', 'C15', 'C20'], 'H10': ['C10']}
if rnd == 'j':   # second review round (third day), other groupings
    groups = {'J1': ['C03'], 'J2': ['C12', 'C08'], 'J3': ['C14'], 'J4': ['C13', 'C06'], 'J5': ['C10'], 'J6': ['C09', 'C04'],
              'J7': ['C01', 'C02'], 'J8': ['C19', 'C15'], 'J9': ['C05', 'C07'], 'J10': ['C11', 'C20']}
TEMPLATE = open(os.path.join(os.path.dirname(__file__), 'huntprompt.txt')).read()
for k, ids in groups.items():
    wt, out = f"/tmp/seed{rnd}_{k}", f"/tmp/seedout{rnd}_{k}"
    ptxt = "\n\n".join(f"PROPERTY {i}: {props[i]['title']}\n{props[i]['statement']}\nIt must hold: {props[i]['quantifier']['text']}\nRelevant source files: {', '.join(props[i]['anchors']['files'])}" for i in ids)
    open(f"/tmp/seedprompt{rnd}_{k}.txt", "w").write(TEMPLATE.replace("{wt}", wt).replace("{out}", out).replace("{ptxt}", ptxt))
    if not os.path.isdir(wt): subprocess.check_call(['git', '-C', '/repo', 'worktree', 'add', '-q', wt, 'HEAD'])
    os.makedirs(out, exist_ok=True)
print(len(groups), "prompts")
