#!/bin/bash
# confirm_seed.sh <id> <outdir> -- independent confirmation of a seeded change:
#   builds a scratch worktree of /repo with meson, compiles <outdir>/demo.c against it, expects PASS (exit 0);
#   applies <outdir>/patch.diff, rebuilds, expects the demo to FAIL (exit != 0); runs the repository's 15 tests with the change.
# Writes <outdir>/confirm.log and prints one summary line. Removes the worktree and its build output.
set -uo pipefail
ID="$1"; OUT="$2"
W=/tmp/confirm_$ID.$$
LOG="$OUT/confirm.log"; : > "$LOG"
git -C /repo worktree add -q "$W" HEAD >>"$LOG" 2>&1
trap 'git -C /repo worktree remove --force "$W" >/dev/null 2>&1' EXIT
cd "$W"
meson setup _b >>"$LOG" 2>&1 && meson compile -C _b >>"$LOG" 2>&1 || { echo "$ID: BUILD-FAILED (unchanged)"; exit 1; }
cc_demo() { gcc -std=c17 -D_POSIX_C_SOURCE=200809L -D_GNU_SOURCE -O1 -g -Iinclude -Isrc -I_b/codegen "$OUT/demo.c" -o demo _b/src/libcimba.so -lm -lpthread -Wl,-rpath,$PWD/_b/src >>"$LOG" 2>&1; }
cc_demo || { echo "$ID: DEMO-DOES-NOT-COMPILE"; exit 1; }
timeout 300 ./demo >>"$LOG" 2>&1; RC0=$?
git apply "$OUT/patch.diff" >>"$LOG" 2>&1 || { echo "$ID: PATCH-DOES-NOT-APPLY"; exit 1; }
meson compile -C _b >>"$LOG" 2>&1 || { echo "$ID: BUILD-FAILED (with change)"; exit 1; }
cc_demo
timeout 300 ./demo >>"$LOG" 2>&1; RC1=$?
meson test -C _b >>"$LOG" 2>&1; RCT=$?
NOK=$(grep -a '^Ok:' "$LOG" | tail -1 | awk '{print $2}')
echo "$ID: demo unchanged rc=$RC0, demo with change rc=$RC1, test suite rc=$RCT ok=$NOK"
