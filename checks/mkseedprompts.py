#!/usr/bin/env python3
"""mkseedprompts.py <suffix> - write the prompts for one round of seeding sub-agents to /tmp/seedprompt<suffix>_<id>.txt
and create their scratch worktrees /tmp/seed<suffix>_<id> and output directories /tmp/seedout<suffix>_<id>.
A sub-agent gets the property text and a per-round focus sentence, nothing from /verif."""
import json, os, subprocess, sys
suffix = sys.argv[1]
ROUNDS = {
 'e': {
  'C03': "Focus: the coroutine life cycle bookkeeping in src/cmi_coroutine.c: caller / parent / current pointers when a coroutine TRANSFERS to a third coroutine which then yields, returns or exits; cmi_coroutine_stop of a coroutine that is not the current one; RESTARTING a finished coroutine (what start resets); the exit value for each route. Do NOT change the MXCSR handling in the .asm, the stack alignment or the register save/restore lists (other variants cover those).",
  'C05': "Focus: cmb_resource_acquire / release / the drop callback when the holder ENDS, EXITS or is STOPPED while holding (resource_drop_holder, cmi_process_drop_resources), or cmb_resource_held_by_process / in_use / available reporting, or a process holding SEVERAL resources. Do NOT change cmb_resource_preempt or the re-check loop in cmb_resource_acquire (other variants cover those).",
  'C07': "Focus: cmb_resourcepool_release (partial release: the holder record's amount, removing the record at zero), a holder that acquires MORE while already holding (record update vs new record), the holders heap growing past 8 holders, or pool units of a holder that ends / is stopped. Do NOT change the victim selection loop of preempt, reprioritize_holder or the roll-back (other variants cover those).",
  'C11': "Focus: cmb_buffer_get / cmb_buffer_put amounts written back through the amount pointer on the paths: request larger than capacity served in pieces, a timeout/interrupt arriving after a partial transfer on the PUT side, an unlimited buffer, a get of exactly the level. Do NOT add overflow wrap-arounds and do NOT touch the get-side interrupted path (other variants cover those).",
  'C15': "Focus: the seeding function cmb_random_initialize (splitmix64 expansion, warm-up draws, what it resets), cmb_random_terminate, or a sampler with per-thread cached state OTHER than gamma and geometric (e.g. the normal/exponential ziggurat tail handling, alias tables, binomial/poisson set-up caches, the flip bit cache). The defect must make a stream depend on what the thread did BEFORE seeding or on another thread. Do NOT change cmb_random_std_gamma or cmb_random_geometric (other variants cover those).",
  'C19': "Focus: thread-local engine state that a trial leaves behind for the NEXT trial on the same worker thread: event queue / clock (cmb_event_queue_initialize / terminate), the tag memory pools (cmi_mempool_cleanup, pools re-used across trials), logger flags and trial index, current/main coroutine pointers; or the join/return logic of cimba_run_experiment. Do NOT change the trial dispenser's fetch-add or the gamma caches (other variants cover those).",
  'C20': "Focus: the FREE LIST of cmi_mempool (cmi_mempool_alloc / cmi_mempool_free order, the link stored in a freed object), thread-local statically initialised pools (first use, cmi_mempool_cleanup at thread exit and use after cleanup), or cmi_mempool_terminate / destroy with several chunks. Do NOT change cmi_mempool_expand's object count or the chunk-list realloc (other variants cover those).",
  'C04': "Focus: TIMERS: cmb_process_timer_add / timer_set / timer_cancel / timers_clear, including when they are called on ANOTHER process than the caller (allowed by the header) while that process is holding or blocked on a resource / buffer / queue / condition, and what happens to armed timers when the process is interrupted, preempted or ends. Do NOT change cmb_process_hold's own clean-up or wakeup_event_time's tag removal (other variants cover those).",
  'C13': "Focus: conditions OBSERVING other objects: cmb_resourceguard_register / unregister and the forwarding of a signal from a resource / pool / buffer / queue guard to the conditions subscribed to it (which releases/puts/gets forward, in which order relative to the guard's own waiters), or the predicate being evaluated with the right (condition, process, context) triple. Do NOT change cmb_condition_signal's scan of its own waiters or cmb_condition_wait's clean-up (other variants cover those).",
  'C08': "Focus: OBJECT QUEUES and PRIORITY QUEUES (cmb_objectqueue_put/get, cmb_priorityqueue_put/get): the signalling between getters' and putters' waiting lists when a queue with finite capacity goes from full to non-full or from empty to non-empty, several waiters on one side, a waiter leaving by timeout/interrupt just after being selected. Do NOT touch cmb_buffer_*, cmb_resourceguard_wait or cmb_priorityqueue_cancel (other variants cover those).",
 },
}
focus = ROUNDS[suffix]
props = {json.loads(l)['id']: json.loads(l) for l in open('/verif/properties.jsonl')}
for pid, extra in focus.items():
    p = props[pid]
    wt, out = f"/tmp/seed{suffix}_{pid}", f"/tmp/seedout{suffix}_{pid}"
    txt = f"""You are helping to evaluate how well a verification suite protects a C library. Your job: produce ONE realistic, subtle code change ("seeded defect") to the library that BREAKS the property stated below, while the library still compiles and its existing test suite still passes, plus a small demonstration program that fails with your change and passes without it.

Library: cimba, a discrete-event simulation library in C (event queue on a hash-heap, stackful coroutine processes with an assembly context switch, resources/pools/buffers/queues/conditions with priority waiting lists, random number distributions, statistics). Your private scratch copy (a git worktree) is at {wt} . Work ONLY inside {wt} and {out}. Do not read or touch /repo, /verif or any other directory; do not look for existing verification machinery. Do not run pkill/killall. Do NOT use `git stash` (the stash is shared between worktrees): save your change with `git diff > {out}/patch.diff` and switch with `git apply -R` / `git apply`.

PROPERTY {pid}: {p['title']}
{p['statement']}
It must hold: {p['quantifier']['text']}
Relevant source files: {', '.join(p['anchors']['files'])}

{extra}

What kind of change: the sort of mistake a maintainer could plausibly make in a refactoring or an "optimisation" (a dropped re-check, a wrong comparison operator on one branch, a missing signal/notification on one rarely taken path, state that is not reset, an off-by-one at a growth threshold, a clean-up done in the wrong order ...). It must need something specific to manifest: a particular interleaving of simulated processes, a fault (interrupt, timeout, stop, preemption) arriving at a particular point, a multi-step sequence of operations, an unusual but valid input, or two cooperating code sites that each look fine alone. NOT something that ordinary use or the existing tests would expose at once. Keep the change small (a few lines), in library source under src/ or include/ (not in tests).

How to build and test in your worktree (offline; everything needed is installed):
  cd {wt} && meson setup _b >/dev/null && meson compile -C _b
  meson test -C _b            # 15 tests; the 'random' test alone takes 5-8 minutes, the rest under a minute in total. Run the full suite once at the end with your change applied; while iterating use e.g.  meson test -C _b event process resource
  gcc -std=c17 -D_POSIX_C_SOURCE=200809L -O1 -g -Iinclude -Isrc -I_b/codegen demo.c -o demo _b/src/libcimba.so -lm -lpthread -Wl,-rpath,$PWD/_b/src
Public API headers are in include/ (cimba.h includes most; cmb_priorityqueue.h must be included separately); src/ has internal headers too. tutorial/ and test/ show typical usage. Call cmb_logger_flags_off(CMB_LOGGER_INFO | CMB_LOGGER_WARNING) first to silence logging.

Deliverables, all in {out}/ :
  1. patch.diff   - your change as a git diff (library sources only; must apply to a clean checkout with `git apply`).
  2. demo.c       - a self-contained, deterministic program using only documented preconditions that exits 0 / prints PASS on the unchanged library and exits non-zero / prints FAIL with your change.
  3. notes.md     - which clause of the property it breaks and how, exactly what is needed for it to manifest, and what you ran (test-suite result with the change applied: all 15 must pass; demo output with and without the change).
Verify everything yourself before finishing. Leave the worktree with your change applied. Reply with a 5-line summary (file and function changed, trigger condition, demo result with/without, test-suite result)."""
    open(f'/tmp/seedprompt{suffix}_{pid}.txt', 'w').write(txt)
    if not os.path.isdir(wt):
        subprocess.check_call(['git', '-C', '/repo', 'worktree', 'add', '-q', wt, 'HEAD'])
    os.makedirs(out, exist_ok=True)
print(len(focus), "prompts")
