#!/bin/bash
# coverage.sh -- reach measurement: which lines and functions of the library the generators actually execute.
# Builds a gcov-instrumented copy of /repo's working tree under /tmp, runs a slice of every engine/configuration
# the registered checks use, writes /verif/coverage/REPORT.md, and removes the build.  Not a check: it decides nothing.
set -uo pipefail
HERE="$(cd "$(dirname "$0")/.." && pwd)"
B=/tmp/covbuild.$$
trap 'rm -rf "$B"' EXIT
VERIF_BUILD_ROOT="$B" "$HERE/build.sh" cov >/dev/null || exit 2
X="$B/cov/cimsim"
N="${1:-3000}"
run() { "$X" run "$@" >/dev/null 2>&1 || true; }
for e in events hheap coro mempool util teardown; do run $e 11 0 $N; done
run rng 11 0 $((N/10)); run experiment 11 0 $((N/10)); run experiment 11 0 $((N/100)) --cfg many=1
for cfg in mix=all,faults=2 mix=wait,faults=2 mix=res,faults=2 mix=pool,faults=2 mix=buf,faults=2 mix=oq,faults=2 mix=pq,faults=2 \
           mix=cond,faults=2 mix=all,faults=1,crowd=1 churn=1 mix=all,faults=2,rec=1 mix=all,faults=0 mix=wait,faults=2,storm=1 mix=buf,faults=1,huge=1; do
  run procs 11 0 $N --cfg $cfg
done
run procs 11 0 20 --cfg mix=all,faults=1,big=1,rec=1
"$X" sweep procs 11 0 20 --cfg mix=res >/dev/null 2>&1 || true
mkdir -p "$HERE/coverage"
cd "$B/cov/obj"
{
  echo "# Library lines reached by the generators (gcov, -O0 build, $N runs per engine/configuration)"
  echo
  echo '| file | lines | executed |'
  echo '|---|---|---|'
  for o in *.gcno; do
    f="${o%.gcno}"
    gcov -o . "$f.o" 2>/dev/null | awk -v want="$f.c" '/^File/ {cur=$2} /^Lines executed/ { if (index(cur, want)) { split($2,a,":"); print "| " want " | " $4 " | " a[2] " |" } }'
  done
  echo
  echo "## Functions never entered"
  echo
  for o in *.gcno; do
    f="${o%.gcno}"
    gcov -f -o . "$f.o" 2>/dev/null | awk -v file="$f.c" '/^Function/ {fn=$2} /^Lines executed:0.00%/ { if (fn != "") print "- " file ": " fn; fn="" } /^File/ {fn=""}'
  done
} > "$HERE/coverage/REPORT.md"
: > "$HERE/coverage/UNCOVERED.txt"
for o in *.gcno; do
  f="${o%.gcno}"
  gcov -o . "$f.o" >/dev/null 2>&1
  [ -f "$f.c.gcov" ] && grep -a '^ *#####' "$f.c.gcov" | sed "s|^ *#####: *|$f.c:|" >> "$HERE/coverage/UNCOVERED.txt"
done
: > "$HERE/coverage/BRANCHES.txt"
for f in cmb_process cmb_resourceguard cmb_resource cmb_resourcepool cmb_buffer cmb_objectqueue cmb_priorityqueue cmb_condition cmb_event cmi_hashheap cmi_coroutine cimba cmi_mempool cmi_holdable cmi_resourcebase; do
  gcov -b -c -o . "$f.o" >/dev/null 2>&1
  [ -f "$f.c.gcov" ] && awk -v file="$f.c" '
    /^ *[0-9#-]+:/ { split($0, a, ":"); line=a[2]+0; text=$0; sub(/^[^:]*:[^:]*:/, "", text) }
    /^branch +[0-9]+ taken 0/ { if (text !~ /cmb_assert|cmi_assert/) print file ":" line ": " $1 " " $2 " never taken:" text }
    /^branch +[0-9]+ never executed/ { }
  ' "$f.c.gcov" >> "$HERE/coverage/BRANCHES.txt"
done
cat "$HERE/coverage/REPORT.md"
